#!/bin/bash
# runs every seeded defect (/verif/seeded/<id>-n, or not-yet-confirmed ones under /tmp/seed2..4) against the check of its property;
# each must yield exit 1 + VIOLATION.  usage: regress_seeded.sh [parallelism]
par=${1:-4}
list=$(mktemp)
for id in C01 C02 C03 C04 C05 C06 C07 C08 C09 C10 C11 C12 C13 C14 C16 C17 C18 C19; do
  for n in 1 2 3 4 5 6 7 8; do
    p=/verif/seeded/$id-$n/patch.diff
    if [ ! -f $p ]; then
      case $n in
        3|4) p=/tmp/seed2/$id/out/$((n-2))/patch.diff ;;
        5|6) p=/tmp/seed3/$id/out/$((n-4))/patch.diff ;;
        7|8) p=/tmp/seed4/$id/out/$((n-6))/patch.diff ;;
      esac
    fi
    [ -f $p ] || continue
    echo "$id $n $p" >> $list
  done
done
one() { id=$1; n=$2; p=$3
  out=$(/verif/tools/mutcheck.sh $id $p 2>&1); rc=$?
  if [ $rc -eq 1 ] && echo "$out" | grep -q "^VIOLATION property=$id"; then echo "DETECTED $id-$n"; else echo "MISSED $id-$n rc=$rc"; echo "$out" | tail -3 | cut -c1-200; fi; }
export -f one
xargs -P $par -L 1 bash -c 'one $0 $1 $2' < $list | sort > $list.out
grep -v '^DETECTED' $list.out
echo "seeded: detected=$(grep -c '^DETECTED' $list.out) missed=$(grep -c '^MISSED' $list.out)"
rm -f $list $list.out

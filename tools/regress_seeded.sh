#!/bin/bash
# runs every seeded defect (from /tmp/seed/*/out or /verif/seeded) against the check of its property; each must yield exit 1 + VIOLATION
pass=0; fail=0
for id in C01 C02 C03 C04 C05 C06 C07 C08 C09 C10 C11 C12 C13 C14 C16 C17 C18 C19; do
  for n in 1 2; do
    p=/verif/seeded/$id-$n/patch.diff
    [ -f $p ] || p=/tmp/seed/$id/out/$n/patch.diff
    [ -f $p ] || { echo "?? $id-$n no patch"; continue; }
    out=$(/verif/tools/mutcheck.sh $id $p 2>&1); rc=$?
    if [ $rc -eq 1 ] && echo "$out" | grep -q "^VIOLATION property=$id"; then pass=$((pass+1)); else fail=$((fail+1)); echo "MISSED $id-$n rc=$rc"; echo "$out" | tail -3 | cut -c1-200; fi
  done
done
echo "seeded: detected=$pass missed=$fail"

#!/usr/bin/env python3
"""Operator-mutation sweep (checker stress, not a registered check): applies one small token-level mutation at a time
(comparison/boundary/boolean operator, +-1, true/false, comparator identifier swap) inside the given line ranges of /repo,
keeps variants that still compile, runs all checks and lists variants on which every check stays silent. Silent variants are
reviewed by hand: harmless, test-visible, or a missing rule.
usage: opmut_sweep.py <outlog> [workers]   (OPMUT_SAMPLE=n OPMUT_SEED=k: random sample of n mutation sites)"""
import subprocess, sys, os, tempfile, shutil, re
from concurrent.futures import ThreadPoolExecutor
REPO='/repo'
targets=[
 ('nitro.go',95,135),('nitro.go',176,300),('nitro.go',380,500),('nitro.go',575,780),('nitro.go',780,1250),('iterator.go',26,125),
 ('item.go',32,125),('file.go',60,230),('nitro.go',1250,1400),
 ('skiplist/skiplist.go',150,420),('skiplist/access_barrier.go',100,245),('skiplist/iterator.go',20,165),
 ('skiplist/builder.go',30,115),('skiplist/merger.go',20,110),('skiplist/node.go',1,200),('skiplist/node_amd64.go',1,200),
]
OPS=[(r'==','!='),(r'!=','=='),(r'<=','<'),(r'>=','>'),(r'(?<![<\-])<(?![=<\-])','<='),(r'(?<![>\-])>(?![=>])','>='),
     (r'&&','||'),(r'\|\|','&&'),(r'\+ ?1\b',''),(r'- ?1\b',''),(r'\btrue\b','false'),(r'\bfalse\b','true'),
     (r'!(?=[a-zA-Z(])',''),(r'\binsCmp\b','iterCmp'),(r'\biterCmp\b','insCmp'),(r'\bexistCmp\b','insCmp'),(r'\bkeyCmp\b','insCmp'),
     (r'\bcontinue\b','break'),(r'\bbreak\b','continue'),(r'\bbornSn\b','deadSn'),(r'\bdeadSn\b','bornSn'),
     (r'\bpreds\b','succs'),(r'\bsuccs\b','preds'),(r'\bhead\b','tail'),(r'\btail\b','head'),(r'\b0\b','1'),(r'\b1\b','0')]
env=dict(os.environ,GOFLAGS='-mod=mod',GOPROXY='off',GOSUMDB='off',GOTOOLCHAIN='local'); env.pop('GOWORK',None)
items=[]
for f,a,b in targets:
    p=os.path.join(REPO,f)
    if not os.path.exists(p): continue
    lines=open(p).read().split('\n')
    for i in range(a-1,min(b,len(lines))):
        l=lines[i]; st=l.strip()
        if not st or st.startswith('//') or st.startswith('import') : continue
        code=l.split('//')[0]
        for pat,rep in OPS:
            for k,m in enumerate(re.finditer(pat,code)):
                new=l[:m.start()]+rep+l[m.end():]
                if new!=l: items.append((f,i,new,'%s->%s#%d'%(m.group(0),rep,k)))
n=int(sys.argv[2]) if len(sys.argv)>2 else 4
import random
if os.environ.get('OPMUT_SAMPLE'):
    random.seed(int(os.environ.get('OPMUT_SEED','1'))); random.shuffle(items); items=items[:int(os.environ['OPMUT_SAMPLE'])]
chunks=[items[i::n] for i in range(n)]
def work(chunk):
    res=[]
    base=tempfile.mkdtemp(prefix='opm-',dir=os.environ.get('OPMUT_TMP','/tmp'))
    subprocess.check_call('cd %s && git ls-files -z | xargs -0 cp --parents -t %s'%(REPO,base),shell=True)
    for f,i,new,tag in chunk:
        lines=open(os.path.join(REPO,f)).read().split('\n')
        p=os.path.join(base,f)
        open(p,'w').write('\n'.join(lines[:i]+[new]+lines[i+1:]))
        r=subprocess.run(['go','build','./...'],cwd=base,env=env,capture_output=True,text=True)
        if r.returncode==0:
            rr=subprocess.run(['/verif/bin/nitrocheck','-repo',base,'-evidence',base+'/.ev','all'],capture_output=True,text=True)
            viol=sorted(set(re.findall(r'VIOLATION property=(C\d\d)',rr.stdout)))
            t='SILENT' if rr.returncode==0 else ('VIOL' if viol else 'UNDEC')
            res.append('%s %s:%d [%s]  %s   viol=%s'%(t,f,i+1,tag,new.strip()[:110],','.join(viol)))
            open(sys.argv[1]+'.part','a').write(res[-1]+'\n')
        open(p,'w').write('\n'.join(lines))
    shutil.rmtree(base,ignore_errors=True)
    return res
with ThreadPoolExecutor(n) as ex:
    out=[x for r in ex.map(work,chunks) for x in r]
out.sort(key=lambda s:(s.split()[1].split(':')[0],int(s.split()[1].split(':')[1])))
open(sys.argv[1],'w').write('\n'.join(out)+'\n')
print(sum(1 for x in out if x.startswith('SILENT')),'silent of',len(out),'compiling of',len(items))

#!/bin/bash
# usage: mutcheck.sh <prop[,prop...]|all> <patchfile> | -s <file> <python-replace-old> <new>
# Applies a mutation to a scratch copy of /repo, type-checks it, runs nitrocheck on it, removes the copy.
set -u
props=$1; shift
d=$(mktemp -d /tmp/mut-XXXXXX)
trap 'rm -rf "$d"' EXIT
(cd /repo && git ls-files -z | xargs -0 cp --parents -t "$d")
if [ "$1" = "-s" ]; then
  f=$2; old=$3; new=$4
  python3 - "$d/$f" "$old" "$new" <<'PY' || exit 3
import sys
p,old,new=sys.argv[1:4]
s=open(p).read()
if s.count(old)!=1:
    print("mutcheck: pattern occurs %d times"%s.count(old)); sys.exit(3)
open(p,'w').write(s.replace(old,new))
PY
else
  (cd "$d" && patch -s -p1 < "$1") || exit 3
fi
export GOFLAGS=-mod=mod GOPROXY=off GOSUMDB=off GOTOOLCHAIN=local; unset GOWORK
(cd "$d" && go build ./... ) || { echo "mutcheck: mutant does not compile"; exit 3; }
/verif/bin/nitrocheck -repo "$d" -evidence "$d/.ev" ${props//,/ } | sed "s#$d/##g"
exit ${PIPESTATUS[0]}

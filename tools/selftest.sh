#!/bin/bash
# usage: selftest.sh <property id>
# Checker self-test (thorough tier): every stored defect for this property (/verif/seeded/<id>-n/patch.diff: written by
# independent agents from the property text alone; /verif/mutants/<id>-*.patch: own corpus) is applied to a scratch copy
# of /repo's CURRENT tree and must (i) compile and (ii) be reported as a VIOLATION of this property. A patch that no longer
# applies to the current tree is skipped (counted as skipped). A miss means the checker is broken: exit 2 (never a VIOLATION).
set -u
id=$1
here=$(cd "$(dirname "$0")/.." && pwd)
repo=${VERIF_REPO:-/repo}
export GOFLAGS=-mod=mod GOPROXY=off GOSUMDB=off GOTOOLCHAIN=local; unset GOWORK
total=0; detected=0; skipped=0; missed=""
names=""
for p in "$here"/seeded/$id-*/patch.diff "$here"/mutants/$id-*.patch; do
  [ -f "$p" ] || continue
  d=$(mktemp -d /tmp/selftest-XXXXXX)
  (cd "$repo" && git ls-files -z | xargs -0 cp --parents -t "$d" 2>/dev/null)
  # also carry over uncommitted edits of tracked files
  if ! (cd "$d" && patch -s -p1 --dry-run < "$p" >/dev/null 2>&1); then skipped=$((skipped+1)); rm -rf "$d"; continue; fi
  (cd "$d" && patch -s -p1 < "$p")
  if ! (cd "$d" && go build ./... >/dev/null 2>&1); then skipped=$((skipped+1)); rm -rf "$d"; continue; fi
  total=$((total+1))
  out=$("$here/bin/nitrocheck" -repo "$d" -evidence "$d/.ev" -findings "$here/known_findings.json" "$id" 2>&1); rc=$?
  nm=$(basename "$(dirname "$p")"); [ "$nm" = mutants ] && nm=$(basename "$p" .patch)
  if [ $rc -eq 1 ] && echo "$out" | grep -q "^VIOLATION property=$id"; then detected=$((detected+1)); names="$names $nm"; else missed="$missed $nm"; fi
  rm -rf "$d"
done
python3 - "$here/evidence/$id.json" "$total" "$detected" "$skipped" "$names" "$missed" <<'PY'
import json,sys
f,total,det,skip,names,missed=sys.argv[1:7]
try:
    ev=json.load(open(f))
except Exception:
    sys.exit(0)
ev['coverage']['selftest']={"mutants_total":int(total),"mutants_detected":int(det),"mutants_skipped_not_applicable_to_current_tree":int(skip),
  "detected":names.split(),"missed":missed.split(),
  "what":"each stored defect (independently written seeded changes + own corpus) applied to a scratch copy of the current tree must be reported as a violation; evidence about the checker, not a proof about nitro"}
json.dump(ev,open(f,'w'),indent=1)
PY
echo "selftest $id: $detected/$total stored defects detected, $skipped skipped${missed:+, MISSED:$missed}"
[ -z "$missed" ]

#!/usr/bin/env python3
# validates MANIFEST.json and every evidence file against the schemas
import json,sys,glob
import jsonschema
ok=True
m=json.load(open('/verif/MANIFEST.json'))
jsonschema.validate(m,json.load(open('/root/.vp/MANIFEST.schema.json')))
print("MANIFEST valid:",len(m['checks']),"checks,",len(m.get('not_applicable',[])),"not applicable")
es=json.load(open('/root/.vp/EVIDENCE.schema.json'))
for c in m['checks']:
    try:
        ev=json.load(open(c['evidence_file']))
        jsonschema.validate(ev,es)
        print(" ",c['property_id'],"evidence valid: obligations",ev['coverage'].get('obligations'),"violations",ev.get('violations'))
    except Exception as e:
        ok=False; print(" ",c['property_id'],"EVIDENCE PROBLEM:",str(e)[:200])
sys.exit(0 if ok else 1)

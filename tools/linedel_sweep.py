#!/usr/bin/env python3
"""Statement-deletion sweep (checker stress, not a registered check): deletes one source line at a time inside the given
line ranges, keeps variants that still compile, runs all checks, and lists the variants on which every check stays silent.
Those are reviewed by hand: either the deletion is harmless or a rule is missing."""
import subprocess, sys, os, tempfile, shutil, re
REPO='/repo'
targets=[  # file, first line, last line
 ('nitro.go',176,300),('nitro.go',430,500),('nitro.go',575,760),('iterator.go',26,125),
 ('item.go',32,120),('file.go',72,145),
 ('skiplist/skiplist.go',174,400),('skiplist/access_barrier.go',128,240),('skiplist/iterator.go',28,165),
 ('skiplist/builder.go',35,115),('skiplist/merger.go',45,110),('skiplist/stats.go',89,115),
]
env=dict(os.environ,GOFLAGS='-mod=mod',GOPROXY='off',GOSUMDB='off',GOTOOLCHAIN='local'); env.pop('GOWORK',None)
out=open(sys.argv[1] if len(sys.argv)>1 else '/tmp/linedel.log','w')
base=tempfile.mkdtemp(prefix='ld-')
subprocess.check_call('cd %s && git ls-files -z | xargs -0 cp --parents -t %s'%(REPO,base),shell=True)
subprocess.run(['go','build','./...'],cwd=base,env=env)
for f,a,b in targets:
    lines=open(os.path.join(REPO,f)).read().split('\n')
    for i in range(a-1,min(b,len(lines))):
        l=lines[i].strip()
        if not l or l.startswith('//') or l in ('}','{',')','} else {','default:') or l.startswith('func ') or l.startswith('case ') or l.endswith('{') or l.startswith('}') or l.startswith('return') or l.startswith('defer') and False:
            continue
        new=lines[:i]+lines[i+1:]
        p=os.path.join(base,f)
        open(p,'w').write('\n'.join(new))
        r=subprocess.run(['go','build','./...'],cwd=base,env=env,capture_output=True,text=True)
        if r.returncode!=0:
            open(p,'w').write('\n'.join(lines)); continue
        rr=subprocess.run(['/verif/bin/nitrocheck','-repo',base,'-evidence',base+'/.ev','all'],capture_output=True,text=True)
        viol=sorted(set(re.findall(r'VIOLATION property=(C\d\d)',rr.stdout)))
        und=sorted(set(re.findall(r'UNDECIDED property=(C\d\d)',rr.stdout)))
        tag='SILENT' if rr.returncode==0 else ('VIOL' if viol else 'UNDEC')
        out.write('%s %s:%d  %s   viol=%s und=%s\n'%(tag,f,i+1,l[:90],','.join(viol),','.join(und))); out.flush()
        open(p,'w').write('\n'.join(lines))
shutil.rmtree(base,ignore_errors=True)
out.write('DONE\n')

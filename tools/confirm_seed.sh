#!/bin/bash
# usage: confirm_seed.sh <srcdir containing patch.diff demo_test.go meta.json> <dest /verif/seeded/ID-n>
# Confirms independently, in a fresh scratch worktree of /repo HEAD: patch applies+compiles, demo FAILS with patch,
# demo PASSES without, full suite passes with patch (only the 4 known mm failures). Writes confirm.json; copies to dest on success.
set -u
src=$1; dest=$2
export GOFLAGS=-mod=mod GOPROXY=off GOSUMDB=off GOTOOLCHAIN=local; unset GOWORK
wt=$(mktemp -d /tmp/confirm-XXXXXX); rmdir $wt
git -C /repo worktree add -q --detach "$wt" HEAD || exit 3
cleanup() { git -C /repo worktree remove --force "$wt" >/dev/null 2>&1; rm -rf "$wt"; }
trap cleanup EXIT
# which package dir does the demo go in?
pkgline=$(grep -m1 '^package ' "$src/demo_test.go" | awk '{print $2}')
case "$pkgline" in
  nitro|nitro_test) pdir=. ;;
  skiplist|skiplist_test) pdir=skiplist ;;
  nodetable|nodetable_test) pdir=nodetable ;;
  mm) pdir=mm ;;
  *) pdir=. ;;
esac
res() { echo "$1" ; }
(cd "$wt" && git apply "$src/patch.diff") || { echo "CONFIRM FAIL: patch does not apply"; exit 1; }
(cd "$wt" && go build ./... ) || { echo "CONFIRM FAIL: does not compile"; exit 1; }
cp "$src/demo_test.go" "$wt/$pdir/zz_seed_demo_test.go"
(cd "$wt/$pdir" && timeout 300 go test -vet=off -count=1 -run 'Seed|Demo|Test.*C[0-9][0-9]' . > "$wt/demo_with.log" 2>&1); rc_with=$?
(cd "$wt" && git apply -R "$src/patch.diff")
(cd "$wt/$pdir" && timeout 300 go test -vet=off -count=1 -run 'Seed|Demo|Test.*C[0-9][0-9]' . > "$wt/demo_without.log" 2>&1); rc_without=$?
rm -f "$wt/$pdir/zz_seed_demo_test.go"
(cd "$wt" && git apply "$src/patch.diff")
(cd "$wt" && go test -vet=off -count=1 -timeout 40m ./... > "$wt/suite.log" 2>&1)
count_fail() {
fails=$(grep -E '^--- FAIL' "$1" | grep -vE 'TestJeMalloc( |$)|TestJeMallocSizeAt|TestJeMallocProf|TestJeMallocArenaLarge' | wc -l)
pkgfail=$(grep -E '^(FAIL|panic)' "$1" | grep -v 'nitro/mm' | grep -v '^FAIL$' | wc -l)
}
count_fail "$wt/suite.log"
if [ $fails -ne 0 ] || [ $pkgfail -ne 0 ]; then
  # skiplist TestInsert is flaky on the unchanged tree (BASELINE.json "flaky"): re-run the failing packages once
  pk=$(grep -E '^FAIL\s+github' "$wt/suite.log" | grep -v 'nitro/mm' | awk '{print $2}' | tr '\n' ' ')
  grep -E '^--- FAIL' "$wt/suite.log" | grep -v JeMalloc > "$dest.firstfail.txt" 2>/dev/null
  if [ -n "$pk" ]; then
    (cd "$wt" && go test -vet=off -count=1 -timeout 40m $pk > "$wt/suite2.log" 2>&1)
    count_fail "$wt/suite2.log"
  fi
fi
ok=1
[ $rc_with -ne 0 ] || ok=0
[ $rc_without -eq 0 ] || ok=0
[ $fails -eq 0 ] && [ $pkgfail -eq 0 ] || ok=0
mkdir -p "$dest"
cat > "$dest/confirm.json" <<J
{"demo_with_patch_exit": $rc_with, "demo_without_patch_exit": $rc_without, "suite_unexpected_test_failures": $fails, "suite_unexpected_package_failures": $pkgfail, "confirmed": $ok, "repo_head": "$(git -C /repo rev-parse --short HEAD)"}
J
tail -5 "$wt/demo_with.log" > "$dest/demo_with_patch.tail.txt"
if [ $ok -eq 1 ]; then
  cp "$src/patch.diff" "$src/demo_test.go" "$src/meta.json" "$dest/"
  echo "CONFIRMED $dest"
else
  echo "NOT CONFIRMED $dest: with=$rc_with without=$rc_without fails=$fails pkgfail=$pkgfail"; grep -E '^(--- FAIL|FAIL|panic)' "$wt/suite.log" | head -5; tail -3 "$wt/demo_without.log"
fi

#!/usr/bin/env python3
"""Generates /verif/mutants/<id>-<name>.patch: the checker's OWN mutant corpus (one realistic, compile-clean change per
rule instance). Unlike /verif/seeded (independent agents, suite-verified) these are written by the checker's author and
are only required to compile; they are regression material for the thorough-tier self-test. Run from anywhere; needs /repo."""
import os, subprocess, tempfile, shutil, sys

REPO = '/repo'
OUT = '/verif/mutants'

M = [
 # id, name, file, old, new
 ("C14", "tower-top-not-linked", "skiplist/skiplist.go", "for i := 1; i <= int(itemLevel); i++ {", "for i := 1; i < int(itemLevel); i++ {"),
 ("C13", "tower-top-succ-uninit", "skiplist/skiplist.go", "for i := 0; i <= int(itemLevel); i++ {\n\t\tx.setNext(i, buf.succs[i], false)", "for i := 0; i < int(itemLevel); i++ {\n\t\tx.setNext(i, buf.succs[i], false)"),
 ("C01", "vis-le-to-lt", "iterator.go", "itm.bornSn > it.snap.sn", "itm.bornSn >= it.snap.sn"),
 ("C01", "vis-drop-dead-gt0", "iterator.go", "(itm.deadSn > 0 && itm.deadSn <= it.snap.sn)", "(itm.deadSn <= it.snap.sn)"),
 ("C01", "delta-pred-ge", "nitro.go", "itm.deadSn > ctx.sn", "itm.deadSn >= ctx.sn"),
 ("C01", "collect-guard-lt", "nitro.go", "if sn.sn != m.GetLastGCSn()+1 {", "if sn.sn < m.GetLastGCSn()+1 {"),
 ("C01", "resurrect-store", "nitro.go", "	success = atomic.CompareAndSwapUint32(&gotItem.deadSn, 0, sn)\n", "	if gotItem.deadSn > sn {\n		gotItem.deadSn = 0\n	}\n	success = atomic.CompareAndSwapUint32(&gotItem.deadSn, 0, sn)\n"),
 ("C01", "epoch-after-inc", "nitro.go", "	snap := &Snapshot{db: m, sn: m.GetCurrSn(), refCount: 1, count: m.ItemsCount()}\n	m.snapshots.Insert(unsafe.Pointer(snap), CompareSnapshot, buf, &m.snapshots.Stats)\n	snap.gclist = head\n	newSn := atomic.AddUint32(&m.currSn, 1)", "	newSn := atomic.AddUint32(&m.currSn, 1)\n	snap := &Snapshot{db: m, sn: m.GetCurrSn(), refCount: 1, count: m.ItemsCount()}\n	m.snapshots.Insert(unsafe.Pointer(snap), CompareSnapshot, buf, &m.snapshots.Stats)\n	snap.gclist = head"),
 ("C02", "tiebreak-deadsn", "nitro.go", "v = int(thisItem.bornSn) - int(thatItem.bornSn)", "v = int(thisItem.deadSn) - int(thatItem.deadSn)"),
 ("C02", "tiebreak-uint-wrap", "nitro.go", "v = int(thisItem.bornSn) - int(thatItem.bornSn)", "v = int(thisItem.bornSn - thatItem.bornSn)"),
 ("C02", "exist-ignores-that", "nitro.go", "if thisItem.deadSn != 0 || thatItem.deadSn != 0 {", "if thisItem.deadSn != 0 {"),
 ("C02", "gcworker-itercmp", "nitro.go", "m.store.DeleteNode(n, m.insCmp, buf, &w.slSts2)", "m.store.DeleteNode(n, m.iterCmp, buf, &w.slSts2)"),
 ("C02", "gcsnapshots-comparenitro", "nitro.go", "s.db.gcsnapshots.Insert(unsafe.Pointer(s), CompareSnapshot, buf, &s.db.gcsnapshots.Stats)", "s.db.gcsnapshots.Insert(unsafe.Pointer(s), CompareNitro, buf, &s.db.gcsnapshots.Stats)"),
 ("C02", "count-unconditional", "nitro.go", "	if success {\n		w.count++\n	} else {", "	w.count++\n	if !success {"),
 ("C02", "put-returns-existing-node", "nitro.go", "		w.freeItem(x)\n		n = nil\n", "		w.freeItem(x)\n"),
 ("C03", "plain-deadsn-store", "nitro.go", "	success = atomic.CompareAndSwapUint32(&gotItem.deadSn, 0, sn)\n", "	success = gotItem.deadSn == 0\n	if success {\n		gotItem.deadSn = sn\n	}\n"),
 ("C03", "cas-result-ignored", "skiplist/skiplist.go", "		if !buf.preds[0].dcasNext(0, buf.succs[0], x, false, false) {\n			sts.AddUint64(&sts.insertConflicts, 1)\n			goto retry\n		}\n", "		buf.preds[0].dcasNext(0, buf.succs[0], x, false, false)\n"),
 ("C04", "deletenode-no-bracket", "skiplist/skiplist.go", "	token := s.barrier.Acquire()\n	defer s.barrier.Release(token)\n	return s.DeleteNode2(n, cmp, buf, sts)", "	return s.DeleteNode2(n, cmp, buf, sts)"),
 ("C04", "visitor-split-outside-bracket", "nitro.go", "		barrier := m.store.GetAccesBarrier()\n		token := barrier.Acquire()\n		defer barrier.Release(token)\n\n		pivotItems = append(pivotItems, nil) // start item\n		pivotPtrs := m.store.GetRangeSplitItems(shards)", "		pivotItems = append(pivotItems, nil) // start item\n		pivotPtrs := m.store.GetRangeSplitItems(shards)\n		barrier := m.store.GetAccesBarrier()\n		token := barrier.Acquire()\n		defer barrier.Release(token)\n"),
 ("C04", "newiterator2", "iterator.go", "iter: m.store.NewIterator(m.iterCmp, buf),", "iter: m.store.NewIterator2(m.iterCmp, buf),"),
 ("C04", "refresh-no-copy", "iterator.go", "		itm := it.snap.db.ptrToItem(it.GetNode().Item())\n		it.iter.Close()\n		it.iter = it.snap.db.store.NewIterator(it.snap.db.iterCmp, it.buf)\n		it.iter.Seek(unsafe.Pointer(itm))", "		itm := it.GetNode().Item()\n		it.iter.Close()\n		it.iter = it.snap.db.store.NewIterator(it.snap.db.iterCmp, it.buf)\n		it.iter.Seek(itm)"),
 ("C04", "free-before-wait2", "nitro.go", "		m.shutdownWg1.Wait()\n		close(m.freechan)\n		m.shutdownWg2.Wait()\n", "		m.shutdownWg1.Wait()\n		close(m.freechan)\n"),
 ("C04", "flush-before-unlink", "nitro.go", "			for n := gclist; n != nil; n = n.GetLink() {\n				w.doDeltaWrite((*Item)(n.Item()))\n				m.store.DeleteNode(n, m.insCmp, buf, &w.slSts2)\n			}\n\n			m.store.Stats.Merge(&w.slSts2)\n\n			barrier := m.store.GetAccesBarrier()\n			barrier.FlushSession(unsafe.Pointer(gclist))", "			barrier := m.store.GetAccesBarrier()\n			barrier.FlushSession(unsafe.Pointer(gclist))\n			for n := gclist; n != nil; n = n.GetLink() {\n				w.doDeltaWrite((*Item)(n.Item()))\n				m.store.DeleteNode(n, m.insCmp, buf, &w.slSts2)\n			}\n\n			m.store.Stats.Merge(&w.slSts2)"),
 ("C05", "snapclose-before-init", "nitro.go", "		if err = m.changeDeltaWrState(dwStateInit, deltaWriters, snap); err != nil {\n			return err\n		}\n", "		snap.Close()\n		snapClosed = true\n		if err = m.changeDeltaWrState(dwStateInit, deltaWriters, snap); err != nil {\n			return err\n		}\n"),
 ("C05", "deltawrite-after-unlink", "nitro.go", "				w.doDeltaWrite((*Item)(n.Item()))\n				m.store.DeleteNode(n, m.insCmp, buf, &w.slSts2)", "				m.store.DeleteNode(n, m.insCmp, buf, &w.slSts2)\n				w.doDeltaWrite((*Item)(n.Item()))"),
 ("C05", "v0-little-endian", "item.go", "l = int(binary.BigEndian.Uint16(buf[0:2]))", "l = int(binary.LittleEndian.Uint16(buf[0:2]))"),
 ("C06", "stitch-continue-before-reset", "nitro.go", "		w.gchead = nil\n		w.gctail = nil\n\n		// Update global stats", "		if w.count == 0 {\n			continue\n		}\n		w.gchead = nil\n		w.gctail = nil\n\n		// Update global stats"),
 ("C06", "close-decides-on-reload", "nitro.go", "	newRefcount := atomic.AddInt32(&s.refCount, -1)\n	if newRefcount == 0 {", "	atomic.AddInt32(&s.refCount, -1)\n	if atomic.LoadInt32(&s.refCount) == 0 {"),
 ("C06", "gc-early-return-holding-flag", "nitro.go", "		m.collectDead()\n		atomic.CompareAndSwapInt32(&m.isGCRunning, 1, 0)", "		if m.hasShutdown {\n			return\n		}\n		m.collectDead()\n		atomic.CompareAndSwapInt32(&m.isGCRunning, 1, 0)"),
 ("C07", "put2-no-free", "nitro.go", "	} else {\n		w.freeItem(x)\n		n = nil\n	}", "	} else {\n		n = nil\n	}"),
 ("C07", "restore-no-sentinel-free", "nitro.go", "		oldStore.FreeNode(oldStore.HeadNode(), &oldStore.Stats)\n		oldStore.FreeNode(oldStore.TailNode(), &oldStore.Stats)\n", ""),
 ("C07", "close-frees-current-node", "nitro.go", "		for lastNode != nil {\n			m.freeItem((*Item)(lastNode.Item()))\n			m.store.FreeNode(lastNode, &m.store.Stats)\n			lastNode = nil\n\n			if iter.Valid() {\n				lastNode = iter.GetNode()\n				iter.Next()\n			}\n		}", "		for lastNode != nil {\n			m.freeItem((*Item)(lastNode.Item()))\n			m.store.FreeNode(lastNode, &m.store.Stats)\n			lastNode = nil\n\n			if iter.Valid() {\n				lastNode = iter.GetNode()\n			}\n			iter.Next()\n		}"),
 ("C08", "open-blind-add", "nitro.go", "		if atomic.CompareAndSwapInt32(&s.refCount, refCount, refCount+1) {\n			return true\n		}", "		atomic.AddInt32(&s.refCount, 1)\n		return true"),
 ("C08", "iterator-close-no-snap-close", "iterator.go", "	it.snap.Close()\n	it.snap.db.store.FreeBuf(it.buf)", "	it.snap.db.store.FreeBuf(it.buf)"),
 ("C08", "snapclosed-not-set", "nitro.go", "		snap.Close()\n		snapClosed = true\n		fakeSnap := *snap", "		snap.Close()\n		fakeSnap := *snap"),
 ("C09", "refresh-no-skip", "iterator.go", "		it.iter.Seek(unsafe.Pointer(itm))\n		// Seek lands on the oldest version of the key, which may not be\n		// visible in this snapshot\n		it.skipUnwanted()", "		it.iter.Seek(unsafe.Pointer(itm))"),
 ("C09", "seek-no-skip", "iterator.go", "	it.iter.Seek(unsafe.Pointer(itm))\n	it.skipUnwanted()\n}", "	it.iter.Seek(unsafe.Pointer(itm))\n}"),
 ("C10", "callback-error-dropped", "nitro.go", "					if err := callb(itm, shard); err != nil {\n						errors[shard] = err\n						return\n					}", "					if err := callb(itm, shard); err != nil {\n						return\n					}"),
 ("C10", "end-test-gt", "nitro.go", "m.iterCmp(itr.GetNode().Item(), unsafe.Pointer(endItem)) >= 0", "m.iterCmp(itr.GetNode().Item(), unsafe.Pointer(endItem)) > 0"),
 ("C11", "checksum-loop-skipped", "nitro.go", "	for i, rdr := range readers {\n		if checksums[i] != 0 && checksums[i] != rdr.Checksum() {\n			return nil, ErrCorruptSnapshot\n		}\n	}\n\n	for _, err := range errors {\n		if err != nil {\n			return nil, err\n		}\n	}\n\n	oldStore", "	for _, err := range errors {\n		if err != nil {\n			return nil, err\n		}\n	}\n\n	oldStore"),
 ("C11", "unmarshal-error-dropped", "nitro.go", "	if err = json.Unmarshal(bs, &files); err != nil {\n		return nil, err\n	}\n\n	if bs, err := ioutil.ReadFile(filepath.Join(datadir, \"checksums.json\"))", "	json.Unmarshal(bs, &files)\n\n	if bs, err := ioutil.ReadFile(filepath.Join(datadir, \"checksums.json\"))"),
 ("C11", "short-payload-is-eos", "item.go", "			m.freeItem(itm)\n			return nil, checksum, err", "			m.freeItem(itm)\n			return nil, checksum, nil"),
 ("C12", "manifest-before-scan", "nitro.go", "		if err = m.Visitor(snap, visitorCallback, shards, concurr); err == nil {\n			bs, _ := json.Marshal(files)\n			err = ioutil.WriteFile(filepath.Join(datadir, \"files.json\"), bs, 0660)\n			if err == nil {", "		bs, _ := json.Marshal(files)\n		err = ioutil.WriteFile(filepath.Join(datadir, \"files.json\"), bs, 0660)\n		if err == nil {\n			err = m.Visitor(snap, visitorCallback, shards, concurr)\n			if err == nil {"),
 ("C12", "handshake-overwrites-err", "nitro.go", "			if derr := m.changeDeltaWrState(dwStateTerminate, nil, nil); err == nil {\n				err = derr\n			}", "			err = m.changeDeltaWrState(dwStateTerminate, nil, nil)"),
 ("C12", "flush-error-dropped", "file.go", "	if err := f.w.Flush(); err != nil {\n		f.fd.Close()\n		return err\n	}", "	f.w.Flush()"),
 ("C13", "softdelete-any-level", "skiplist/skiplist.go", "if delNode.dcasNext(i, next, next, false, true) && i == 0 {", "if delNode.dcasNext(i, next, next, false, true) {"),
 ("C13", "upper-before-level0", "skiplist/skiplist.go", "	// Now node is part of the skiplist\n	if !buf.preds[0].dcasNext(0, buf.succs[0], x, false, false) {\n		sts.AddUint64(&sts.insertConflicts, 1)\n		goto retry\n	}\n", "	if itemLevel > 0 {\n		buf.preds[1].dcasNext(1, buf.succs[1], x, false, false)\n	}\n	// Now node is part of the skiplist\n	if !buf.preds[0].dcasNext(0, buf.succs[0], x, false, false) {\n		sts.AddUint64(&sts.insertConflicts, 1)\n		goto retry\n	}\n"),
 ("C13", "findpath-compares-marked", "skiplist/skiplist.go", "			for deleted {\n				if !s.helpDelete(i, prev, curr, next, sts) {", "			for deleted && i > 0 {\n				if !s.helpDelete(i, prev, curr, next, sts) {"),
 ("C13", "newlevel-no-cas", "skiplist/skiplist.go", "		if atomic.CompareAndSwapInt32(&s.level, int32(level), int32(level+1)) {\n			nextLevel = level + 1\n		} else {\n			nextLevel = level\n		}", "		atomic.StoreInt32(&s.level, int32(level+1))\n		nextLevel = level + 1"),
 ("C14", "segment-no-usedbytes", "skiplist/builder.go", "	s.sts.AddInt64(&s.sts.usedBytes, int64(s.builder.store.Size(x)))\n", ""),
 ("C14", "helpdelete-or-level0", "skiplist/skiplist.go", "if success && level == 0 {", "if success || level == 0 {"),
 ("C14", "node17-short", "skiplist/node_alloc_amd64.go", "	buf   [18]NodeRef", "	buf   [17]NodeRef"),
 ("C14", "slsts1-in-gcworker", "nitro.go", "m.store.DeleteNode(n, m.insCmp, buf, &w.slSts2)", "m.store.DeleteNode(n, m.insCmp, buf, &w.slSts1)"),
 ("C16", "objectref-after-add", "skiplist/access_barrier.go", "		bs.objectRef = ref\n		ab.activeSeqno++\n		bs.seqno = ab.activeSeqno\n		ab.numAllocated++\n\n		atomic.AddInt32(bs.liveCount, barrierFlushOffset+1)\n", "		ab.activeSeqno++\n		bs.seqno = ab.activeSeqno\n		ab.numAllocated++\n\n		atomic.AddInt32(bs.liveCount, barrierFlushOffset+1)\n		bs.objectRef = ref\n"),
 ("C16", "closed-ge-1", "skiplist/access_barrier.go", "if atomic.AddInt32(&bs.closed, 1) == 1 {", "if atomic.AddInt32(&bs.closed, 1) >= 1 {"),
 ("C16", "callb-no-seq-guard", "skiplist/access_barrier.go", "		if bs.seqno != atomic.LoadUint64(&ab.freeSeqno)+1 {\n			return\n		}\n", ""),
 ("C17", "no-recheck", "skiplist/access_barrier.go", "				for atomic.CompareAndSwapInt32(&ab.isDestructorRunning, 0, 1) {\n					ab.doCleanup()\n					atomic.CompareAndSwapInt32(&ab.isDestructorRunning, 1, 0)\n					if !ab.hasReadySession() {\n						break\n					}\n				}", "				if atomic.CompareAndSwapInt32(&ab.isDestructorRunning, 0, 1) {\n					ab.doCleanup()\n					atomic.CompareAndSwapInt32(&ab.isDestructorRunning, 1, 0)\n				}"),
 ("C18", "seekfirst-no-reset", "skiplist/merger.go", "func (mit *MergeIterator) SeekFirst() {\n	mit.h = mit.h[:0]\n", "func (mit *MergeIterator) SeekFirst() {\n"),
 ("C18", "next-push-without-advance", "skiplist/merger.go", "	mit.curr = hi.n\n	hi.iter.Next()\n	if hi.iter.Valid() {", "	mit.curr = hi.n\n	if hi.iter.Valid() {"),
 ("C18", "assemble-tail-unconditional", "skiplist/builder.go", "			if seg.tail[l] != nil {\n				tail[l] = seg.tail[l]\n			}", "			tail[l] = seg.tail[l]"),
 ("C19", "reader-folds-terminator", "file.go", "	if itm != nil { // Checksum excludes terminal nil item\n		f.checksum = f.checksum ^ checksum\n	}", "	f.checksum = f.checksum ^ checksum"),
 ("C19", "comparekv-bigendian", "item.go", "	la := int(binary.LittleEndian.Uint16(a[0:2]))", "	la := int(binary.BigEndian.Uint16(a[0:2]))"),
 ("C19", "writer-uint16-prefix", "item.go", "	binary.BigEndian.PutUint32(buf[0:4], uint32(itm.dataLen))", "	binary.BigEndian.PutUint16(buf[0:2], uint16(itm.dataLen))\n	buf[2], buf[3] = 0, 0"),
 ("C17", "acquire-backoff-no-release", "skiplist/access_barrier.go", "			ab.Release(bs)\n			goto retry", "			goto retry"),
 ("C17", "cursor-close-no-release", "skiplist/iterator.go", "func (it *Iterator) Close() {\n	if it.bs != nil {\n		it.s.barrier.Release(it.bs)\n	}", "func (it *Iterator) Close() {\n	if it.bs != nil {\n	}"),
 ("C13", "index-retry-no-search", "skiplist/skiplist.go", "			s.findPath(itm, insCmp, buf, sts)\n		}", "		}"),
 ("C16", "flush-offset-small", "skiplist/access_barrier.go", "const barrierFlushOffset = math.MaxInt32 / 2", "const barrierFlushOffset = math.MaxInt16 / 2"),
 ("C19", "writer-append-mode", "file.go", "os.O_WRONLY|os.O_CREATE, 0755", "os.O_WRONLY|os.O_CREATE|os.O_APPEND, 0755"),
 ("C12", "missing-files-manifest-tolerated", "nitro.go", "	if bs, err = ioutil.ReadFile(filepath.Join(datadir, \"files.json\")); err != nil {\n		return nil, err\n	}\n	if err = json.Unmarshal(bs, &files); err != nil {\n		return nil, err\n	}", "	if bs, err = ioutil.ReadFile(filepath.Join(datadir, \"files.json\")); err == nil {\n		if err = json.Unmarshal(bs, &files); err != nil {\n			return nil, err\n		}\n	} else if !os.IsNotExist(err) {\n		return nil, err\n	}"),
 ("C02", "getnode-empty-fastpath", "nitro.go", "func (w *Writer) GetNode(bs []byte) *skiplist.Node {\n", "func (w *Writer) GetNode(bs []byte) *skiplist.Node {\n	if w.ItemsCount()+w.count == 0 {\n		return nil\n	}\n"),
]

def main():
    os.makedirs(OUT, exist_ok=True)
    for f in os.listdir(OUT):
        if f.endswith('.patch'):
            os.remove(os.path.join(OUT, f))
    env = dict(os.environ, GOFLAGS='-mod=mod', GOPROXY='off', GOSUMDB='off', GOTOOLCHAIN='local')
    env.pop('GOWORK', None)
    ok = bad = 0
    for pid, name, file, old, new in M:
        d = tempfile.mkdtemp(prefix='genmut-')
        try:
            subprocess.check_call('cd %s && git ls-files -z | xargs -0 cp --parents -t %s' % (REPO, d), shell=True)
            subprocess.check_call(['git', 'init', '-q'], cwd=d)
            subprocess.check_call('git add -A && git -c user.email=a@b -c user.name=x commit -qm base', shell=True, cwd=d)
            p = os.path.join(d, file)
            s = open(p).read()
            if s.count(old) != 1:
                print("SKIP %s-%s: pattern occurs %d times" % (pid, name, s.count(old))); bad += 1; continue
            open(p, 'w').write(s.replace(old, new))
            r = subprocess.run(['go', 'build', './...'], cwd=d, env=env, capture_output=True, text=True)
            if r.returncode != 0:
                print("SKIP %s-%s: does not compile: %s" % (pid, name, r.stderr.strip().split('\n')[-1][:120])); bad += 1; continue
            diff = subprocess.run(['git', 'diff'], cwd=d, capture_output=True, text=True).stdout
            open(os.path.join(OUT, '%s-%s.patch' % (pid, name)), 'w').write(diff)
            ok += 1
        finally:
            shutil.rmtree(d, ignore_errors=True)
    print("wrote %d mutants, %d skipped" % (ok, bad))

if __name__ == '__main__':
    main()

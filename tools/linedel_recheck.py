#!/usr/bin/env python3
"""Re-test the SILENT lines of a statement-deletion log with the current checker binary (checker stress, not a registered check).
usage: linedel_recheck.py <log> <outlog> [workers]"""
import subprocess, sys, os, tempfile, shutil, re
from concurrent.futures import ThreadPoolExecutor
REPO='/repo'
env=dict(os.environ,GOFLAGS='-mod=mod',GOPROXY='off',GOSUMDB='off',GOTOOLCHAIN='local'); env.pop('GOWORK',None)
items=[]
for l in open(sys.argv[1]):
    m=re.match(r'SILENT (\S+):(\d+)  (.*?)   viol=',l)
    if m: items.append((m.group(1),int(m.group(2)),m.group(3)))
n=int(sys.argv[3]) if len(sys.argv)>3 else 4
chunks=[items[i::n] for i in range(n)]
def work(chunk):
    res=[]
    base=tempfile.mkdtemp(prefix='ldr-')
    subprocess.check_call('cd %s && git ls-files -z | xargs -0 cp --parents -t %s'%(REPO,base),shell=True)
    for f,ln,txt in chunk:
        lines=open(os.path.join(REPO,f)).read().split('\n')
        if lines[ln-1].strip()[:90]!=txt.strip():
            res.append('STALE %s:%d  %s'%(f,ln,txt)); continue
        p=os.path.join(base,f)
        open(p,'w').write('\n'.join(lines[:ln-1]+lines[ln:]))
        r=subprocess.run(['go','build','./...'],cwd=base,env=env,capture_output=True,text=True)
        if r.returncode==0:
            rr=subprocess.run(['/verif/bin/nitrocheck','-repo',base,'-evidence',base+'/.ev','all'],capture_output=True,text=True)
            viol=sorted(set(re.findall(r'VIOLATION property=(C\d\d)',rr.stdout)))
            tag='SILENT' if rr.returncode==0 else ('VIOL' if viol else 'UNDEC')
            res.append('%s %s:%d  %s   viol=%s'%(tag,f,ln,txt,','.join(viol)))
        open(p,'w').write('\n'.join(lines))
    shutil.rmtree(base,ignore_errors=True)
    return res
with ThreadPoolExecutor(n) as ex:
    out=[x for r in ex.map(work,chunks) for x in r]
out.sort()
open(sys.argv[2],'w').write('\n'.join(out)+'\n')
print(sum(1 for x in out if x.startswith('SILENT')),'silent of',len(out))

#!/usr/bin/env python3
# Adds to /verif/seeded/<id>-<n>/meta.json: what was run to confirm it and which obligations of which check report it.
import json, glob, os, subprocess, re
for d in sorted(glob.glob('/verif/seeded/C*-*')):
    mp=os.path.join(d,'meta.json')
    if not os.path.exists(mp): continue
    try: meta=json.load(open(mp))
    except Exception: continue
    pid=os.path.basename(d).split('-')[0]
    conf={}
    if os.path.exists(os.path.join(d,'confirm.json')):
        conf=json.load(open(os.path.join(d,'confirm.json')))
    r=subprocess.run(['/verif/tools/mutcheck.sh',pid,os.path.join(d,'patch.diff')],capture_output=True,text=True)
    lines=[l for l in r.stdout.split('\n') if re.search(r'\[C\d\d\.\w+/',l)]
    meta['property']=meta.get('property',pid)
    meta['confirmation']={
        'what_was_run':[
            'tools/confirm_seed.sh in a fresh scratch worktree of /repo HEAD: git apply patch.diff; go build ./...',
            'go test -run <demo> with the patch (must FAIL), git apply -R, same demo (must PASS)',
            'go test -vet=off -count=1 -timeout 40m ./... with the patch (only the 4 always_fail mm tests may fail; a failing package is re-run once because skiplist TestInsert is flaky on the unchanged tree)'],
        'result':conf}
    meta['detection']={'check':'/verif/run.sh %s quick (applied with tools/mutcheck.sh to a scratch copy)'%pid,'exit':r.returncode,
        'reported_obligations':[re.sub(r'\s+—.*','',l)[:240] for l in lines][:6]}
    json.dump(meta,open(mp,'w'),indent=1)
    print(os.path.basename(d), r.returncode, len(lines))

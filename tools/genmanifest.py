#!/usr/bin/env python3
# Generates /verif/MANIFEST.json from the table below (kept in one place so the
# manifest stays valid and consistent with what the checker implements).
import json, subprocess

BASELINE = json.load(open('/root/.vp/BASELINE.json'))['cmd']

NOTE = ("Trusted base: go/types + go/packages (loading /repo's current working tree, linux/amd64 cgo, all packages; "
        "thorough additionally linux/arm64 for the !amd64 node implementation), golang.org/x/tools/go/ssa v0.29.0, the VTA call graph, and the checker itself. "
        "Assumes go/ssa represents the source faithfully. Decides only the structural clauses named in DESIGN.md; the behaviour as a whole "
        "(all schedules/histories/inputs) is NOT proved.")

# id -> (technique, level text, design section) ; absent ids go to not_applicable
CLAIMED = {
 "C02": ("static analysis: finite-domain decision tables of the three item comparators and the id comparators (SSA interpreter), comparator role table over all resolved call sites (value-origin analysis), must-precede rule that every key operation searches the store with a fresh probe, guard-dominance on result/effect pairing in Put2/GetNode/DeleteNode",
         "Necessary structural conditions of the set semantics decided on every call site and path; not an equivalence proof against a reference set.", "DESIGN.md §2 C02"),
 "C08": ("static analysis: who-may-write + check-then-act rule on Snapshot.refCount (every write classified), guard-dominance on the decrement's own result, must-follow release pairing of iterator/snapshot references incl. the snapClosed idiom",
         "The structural cause of the Open/Close race (conditional increment not being one atomic step) and the release pairing are decided on all paths; schedules are not explored.", "DESIGN.md §2 C08"),
 "C09": ("static analysis: must-follow rule (every cursor move is followed by the visibility filter on all paths), comparator role table, freshness/ordering rule for Refresh, decision table of the filter",
         "Necessary structural conditions of exact positioning decided on every path of the iterator methods.", "DESIGN.md §2 C09"),
 "C11": ("static analysis: error-discipline dataflow (every error result in the restore call graph must reach a return/record), must-pass-through length checks for manifest-sized slices, producer/consumer shape rule for unbuffered work channels, must-pass-through of checksum verification (decided as a finite decision table) and error scan before acceptance, path rule on DecodeItem's returns",
         "Error discipline, bounded indexing and worker/producer shape decided on every path of the restore call graph — exactly the fault space (any byte of any file) a test cannot enumerate and a path rule does not need to.", "DESIGN.md §2 C11"),
 "C12": ("static analysis: error-discipline dataflow over the backup call graph incl. loop-carried overwrite detection, named-result overwrite rule for deferred closures, guard-dominance of manifest writes on the success of what they describe, handshake error propagation",
         "The structural conditions without which StoreToDisk reports success for a partial backup, decided on every path; what a crash image contains is not decided.", "DESIGN.md §2 C12"),
 "C03": ("static analysis: guard-dominance (winner-only side effects of DeleteNode), atomic-write discipline over all fields accessed through sync/atomic, CAS-outcome-consumed rule with recognised release/no-op idioms",
         "Linearizability is NOT decided; these are local necessary conditions whose violation yields a two-writer counter-example.", "DESIGN.md §2 C03"),
 "C05": ("static analysis: must-precede ordering of delta logging vs. unlink and of the init/terminate handshakes (incl. defer LIFO order), decision table of the delta predicate, comparator role table for the restore insert, sibling codec agreement, shard-boundary table, restored-count source",
         "Round-trip equality is NOT decided; decided are the orderings, roles and writer/reader agreements without which a successful backup cannot restore exactly.", "DESIGN.md §2 C05"),
 "C06": ("static analysis: who-may-write table for garbage-list links and ends, per-iteration must-execute effects of the stitch loop, guard-dominance on the retire/collect protocol, loop-shape rule for the collection worker",
         "Necessary structural conditions of precise/complete collection on all paths; counts/bytes equality is not decided.", "DESIGN.md §2 C06"),
 "C10": ("static analysis: comparator-origin rule and sign decision table for the shard end test, shard start/end pivot indices, error-collection dataflow, worker/producer channel shape, iterator reference pairing",
         "Boundary agreement, error collection and termination shape decided on all paths of Visitor and its workers.", "DESIGN.md §2 C10"),
 "C19": ("static analysis: sibling codec agreement (byte-order object, widths, slice bounds, CRC operands extracted from writer and reader SSA and compared), defer-order rule for checksum sampling vs. Close, structural matching of the KV helpers, terminator-on-every-path and reader-error-unchanged rules, per-stream state rule (private scratch buffer, open flags)",
         "Writer/reader mirror-image conditions decided structurally, including the never-tested v0 branch and KV helpers.", "DESIGN.md §2 C19"),
 "C04": ("static analysis: barrier-bracket rule propagated over the VTA call graph (Acquire dominates / Release deferred or post-dominates every structure access; frozen table of caller-holds-the-barrier entry points), freshness/ordering rules for Refresh and GetNode results, who-may-free context table, guard-dominance for the overtaken insert and the winner-only flush",
         "The lexical discipline that makes the epoch scheme sound is decided on all paths and call sites; use-after-free over schedules is not.", "DESIGN.md §2 C04"),
 "C07": ("static analysis: ownership rules (allocation consumed on every path, overwrite of the owning store field, error-return release), teardown order by dominance, who-may-free context table, rejected-operation free pairing",
         "Ownership discipline on every path incl. error paths; F8 (failed restore leaks) is a listed known finding.", "DESIGN.md §2 C07"),
 "C13": ("static analysis: guard-dominance and flag-aware must-pass-through on Insert4's publish/retry, CAS operand shape rules, finite-domain decision tables of softDelete (per-level CAS outcomes) and NewLevel, search guard rules in findPath, sibling agreement of the tagged-word accessors with types.Sizes in both build configurations (amd64 and !amd64)",
         "Linearizability is NOT decided; decided are the algorithm's local obligations, each a necessary condition with a small-thread counter-example, including the node implementation for other architectures that the baseline never compiles.", "DESIGN.md §2 C13"),
 "C14": ("static analysis: sibling accounting signatures (counter, sign, level index, Size operand) extracted from Insert4/Segment.Add/helpDelete and compared, who-may-update counter table, field exhaustiveness of Stats.Merge/Apply over types.Struct, owner table for goroutine-local statistics, layout/constant agreement with types.Sizes (33 node types, header, buffers)",
         "Accounting and layout halves of the property decided structurally; the heap's chain invariants are not.", "DESIGN.md §2 C14"),
 "C16": ("static analysis: lockset rule (mutex / try-lock ownership of plain fields), must-precede ordering in FlushSession, guard-dominance on the atomic add's own result in Release/Acquire, ordered-destruction guard in doCleanup, destructor-only-under-try-lock path rule, type agreement of the close-number counters, range rule for the flush offset constant",
         "Necessary conditions of barrier safety decided on every path; the interleaving argument itself is not.", "DESIGN.md §2 C16"),
 "C17": ("static analysis: lost-wakeup shape rule (try-lock hand-off must re-examine the queue after dropping the flag, and loop back), cleanup scan shape, increment/Release pairing in Acquire, cursor installed-or-closed pairing, counter type agreement",
         "The structural cause of pending sessions at quiescence is decided; liveness over schedules is not.", "DESIGN.md §2 C17"),
 "C18": ("static analysis: heap reset/initialisation ordering in MergeIterator, pop/advance/re-push pairing, per-level chaining guards and loop bounds in Segment.Add/Assemble, allocator origin, exact link-set decision table of Builder.Assemble (SSA interpreter with an element memory model over 64 segment-height scenarios)",
         "Structural conditions of lossless, ordered assembly and merging; content equality is not decided.", "DESIGN.md §2 C18"),
 "C01": ("static analysis: finite-domain decision-table extraction of the visibility predicates (SSA interpreter over epoch orderings), guard-dominance on the collector hand-off, freshness/who-may-write analysis of item headers and payloads, must-precede ordering in NewSnapshot",
         "Necessary structural conditions of snapshot isolation decided on every path and call site of the resolved program (SSA + must-facts + VTA call graph). Not a proof of isolation over all schedules.", "DESIGN.md §2 C01"),
}

NOT_APPLICABLE = {
 "C15": "No structural necessary condition specific to this property could be named that would not also fire on a behaviour-preserving rewrite of Iterator.Next: monotonicity/completeness under concurrent modification are statements about comparator values along racing executions (model-checking territory, a different family). See DESIGN.md §2 C15.",
 "C20": "Functional equivalence of the node table/node list with a map/list over all operation sequences and hash functions is value-level; the only shape facts available are satisfied by every realistic defect, so no clause is claimed. See DESIGN.md §2 C20.",
}

ALL = ["C%02d" % i for i in range(1, 21)]

def main():
    checks = []
    na = []
    for pid in ALL:
        if pid in CLAIMED:
            tech, text, ref = CLAIMED[pid]
            checks.append({
                "property_id": pid,
                "quick_cmd": "/verif/run.sh %s quick" % pid,
                "thorough_cmd": "/verif/run.sh %s thorough" % pid,
                "evidence_file": "/verif/evidence/%s.json" % pid,
                "replay_cmd_template": "cat {path}",
                "engine": "nitrocheck",
                "level_claimed": {"category": "other", "text": text, "design_ref": ref},
                "level_note": NOTE,
                "technique": tech,
            })
        else:
            reason = NOT_APPLICABLE.get(pid, "Not claimed yet: the static check for this property is still under construction in this round (see DESIGN.md §8); no verdict is given.")
            na.append({"property_id": pid, "reason": reason})
    m = {
        "version": 1,
        "setup_cmd": "cd /verif/checker && GOFLAGS=-mod=mod GOPROXY=off GOSUMDB=off GOTOOLCHAIN=local GOWORK=off go build -o /verif/bin/nitrocheck .",
        "hooks": {
            "guard": "verif",
            "enable": "n/a: the checks are static analyses that read /repo's source; no hook or instrumentation exists and no build tag is needed",
            "baseline_off_cmd": BASELINE,
            "source_commits": [],
            "add_only": True,
        },
        "engines": [{
            "name": "nitrocheck",
            "path": "/verif/checker",
            "serves_properties": sorted(CLAIMED.keys()),
            "kind_free_text": "repository-specific static analyser (go/packages + go/ssa + VTA call graph; dominance/must-fact, must-pass-through, who-may, role-table, decision-table and codec-agreement rules)",
        }],
        "checks": checks,
        "not_applicable": na,
        "notes": "All checks are static (no nitro code is executed). Exit 0 = all obligations discharged (KNOWN-FINDING lines for listed defects), exit 1 + VIOLATION line = unlisted violation, exit 2 = the checker could not decide (load/type error, unresolved anchor, rule instance count below its frozen minimum). Fixes to couchbase/nitro found while building the checks are the 'fix:' commits in /repo; see /verif/known_findings.json and DESIGN.md.",
    }
    json.dump(m, open('/verif/MANIFEST.json', 'w'), indent=1)
    print("wrote MANIFEST.json: %d checks, %d not applicable" % (len(checks), len(na)))

if __name__ == '__main__':
    main()

#!/bin/bash
# usage: benign_sweep.sh <dir with N/patch.diff> <out log>
# Every patch is a behaviour-preserving refactoring: all checks must stay silent (exit 0).
d=$1; out=$2; : > "$out"
for p in $(ls -d $d/*/ | sort -V); do
  n=$(basename $p)
  res=$(/verif/tools/mutcheck.sh all $p/patch.diff 2>&1); rc=$?
  echo "=== $d/$n rc=$rc" >> "$out"
  echo "$res" | grep -v "^C[0-9][0-9]: .* 0 violations, 0 undecided" | grep -v "^KNOWN-FINDING" | cut -c1-400 >> "$out"
done
echo DONE >> "$out"

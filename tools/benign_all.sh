#!/bin/bash
# usage: benign_all.sh [parallelism]  — every patch under /verif/benign is behaviour preserving: all checks must stay silent (exit 0)
par=${1:-4}
one() { d=$1; n=$(basename $d)
  res=$(/verif/tools/mutcheck.sh all $d/patch.diff 2>&1); rc=$?
  if [ $rc -eq 0 ]; then echo "SILENT $n"; else echo "ALARM $n rc=$rc"; echo "$res" | grep -v "^C[0-9][0-9]: .* 0 violations, 0 undecided" | grep -v "^KNOWN-FINDING" | cut -c1-300 | head -12; fi; }
export -f one
ls -d /verif/benign/*/ | sort -V | xargs -P $par -I{} bash -c 'one {}' > /tmp/benign_all.out 2>&1
grep -c '^SILENT' /tmp/benign_all.out; grep -A12 '^ALARM' /tmp/benign_all.out

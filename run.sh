#!/bin/bash
# usage: run.sh <property id> <quick|thorough>
# Rebuilds the checker when its sources changed and analyses /repo's CURRENT
# working tree (nothing about /repo is cached between runs).
set -u
id=${1:?property id}; tier=${2:-quick}
here=$(cd "$(dirname "$0")" && pwd)
export GOFLAGS=-mod=mod GOPROXY=off GOSUMDB=off GOTOOLCHAIN=local
unset GOWORK
bin="$here/bin/nitrocheck"
if [ ! -x "$bin" ] || [ -n "$(find "$here/checker" -newer "$bin" \( -name '*.go' -o -name 'go.mod' \) -print -quit)" ]; then
  mkdir -p "$here/bin"
  (cd "$here/checker" && go build -o "$bin" .) || { echo "run.sh: cannot build the checker" >&2; exit 2; }
fi
repo=${VERIF_REPO:-/repo}
"$bin" -repo "$repo" -tier "$tier" -evidence "$here/evidence" -findings "$here/known_findings.json" "$id"
rc=$?
if [ "$tier" = thorough ] && [ $rc -eq 0 ] && [ -x "$here/tools/selftest.sh" ]; then
  "$here/tools/selftest.sh" "$id" || rc=2
fi
exit $rc

package main

func init() {
	register(&PropCheck{
		ID: "C14",
		Explanation: "The structural invariant of the heap (sorted chains, sub-sequence property) is a runtime fact and NOT decided. Decided are the accounting and layout halves: (a) the three places that account a node in (Insert4 after publication, Segment.Add) and out (helpDelete) update the same counter set with the node's own level and Size, once, on every successful path, and each counter is touched only by its owner in the frozen table; " +
			"(b) only the helper whose unlink CAS succeeded at level 0 decrements; softDeletes +1 only for the winning marker (decision table); (c) Stats.Merge and StatsReport.Apply are exhaustive over the fields of Stats (a field added later without merge/zero/report effects is reported); (d) each goroutine-local Stats block is used only by its owning role, merged by it and included in aggregated reports; every segment is merged by Assemble; " +
			"(e) node layout (types.Sizes, amd64): Node.level at offset nodeHdrSize and shorter than the mark byte offset, sizeof(NodeRef) == nodeRefSize == 16, nodeTypes has MaxLevel+1 entries and entry i carries i+1 references right after the header, level buffers have MaxLevel+1 slots, sentinels have MaxLevel, setNext(0) restores the level it shares a word with.",
		Assumptions: []string{"gc compiler struct layout (types.SizesFor(\"gc\", \"amd64\"))"},
		Run: func(c *Ctx) {
			c.Do("C14.a", "L2+L9 accounting siblings", 15, func() { clAccounting(c); clRestoreItemSize(c); clLinkCASWhoMay(c) })
			c.Do("C14.b", "L5+L1 winner-only soft delete accounting; upper-level links keep the sub-sequence shape", 3, func() { clSoftDeleteTable(c); clInsertStopsWhenMarked(c); clAssembleTable(c); clInsertPublish(c); clTowerLinkedToTop(c) })
			c.Do("C14.c", "L7 Merge/Apply exhaustive", 20, func() { clStatsExhaustive(c) })
			c.Do("C14.d", "L4+L3 local statistics owners", 10, func() { clLocalStatsOwners(c); clStatsAddOnOwnObject(c) })
			c.Do("C14.e", "L8 node layout", 40, func() { clNodeLayout(c) })
		},
	})
}

package main

import (
	"encoding/json"
	"fmt"
	"io/ioutil"
	"os"
	"path/filepath"
	"runtime"
	"sort"
	"strings"

	"golang.org/x/tools/go/ssa"
)

type Status string

const (
	OK        Status = "ok"
	Violation Status = "violation"
	Known     Status = "known-finding"
	Undecided Status = "undecided"
)

// Obligation is one decided rule instance.
type Obligation struct {
	Property  string `json:"property"`
	Clause    string `json:"clause"`    // e.g. C01.a
	Rule      string `json:"rule"`      // short rule name
	Func      string `json:"function"`  // enclosing function
	Construct string `json:"construct"` // what inside it (stable text, no line numbers)
	Pos       string `json:"pos"`       // file:line, diagnostic only
	Status    Status `json:"status"`
	Detail    string `json:"detail,omitempty"`
	Config    string `json:"config,omitempty"`
}

func (o Obligation) Key() string {
	return o.Property + "|" + o.Clause + "|" + o.Func + "|" + o.Construct
}

// Ctx collects the obligations of one property run.
type Ctx struct {
	P        *Prog
	Property string
	Obs      []Obligation
	Notes    []string
	clause   string
	rule     string
	mins     map[string]int
	funcs    map[string]bool
}

// Do runs one clause. min is the minimum number of rule instances that must
// be found (frozen from the confirmed tree); fewer means the rule no longer
// matches what it was written for and the clause is undecided, never "ok".
func (c *Ctx) Do(clause, rule string, min int, body func()) {
	c.clause = clause
	c.rule = rule
	if c.mins == nil {
		c.mins = map[string]int{}
	}
	c.mins[clause] = min
	before := len(c.Obs)
	func() {
		defer func() {
			if r := recover(); r != nil {
				if u, ok := r.(undecided); ok {
					c.add(Undecided, nil, nil, "clause "+clause, u.msg)
					return
				}
				buf := make([]byte, 4096)
				buf = buf[:runtime.Stack(buf, false)]
				c.add(Undecided, nil, nil, "clause "+clause, fmt.Sprintf("checker panic: %v\n%s", r, buf))
			}
		}()
		body()
	}()
	n := 0
	for _, o := range c.Obs[before:] {
		if o.Clause == clause {
			n++
		}
	}
	if n < min {
		c.add(Undecided, nil, nil, "clause "+clause, fmt.Sprintf("only %d rule instances found, expected at least %d: the rule does not match the code it was written for", n, min))
	}
}

func (c *Ctx) touch(fn *ssa.Function) {
	if c.funcs == nil {
		c.funcs = map[string]bool{}
	}
	if fn != nil {
		c.funcs[fname(fn)] = true
	}
}

func (c *Ctx) add(st Status, fn *ssa.Function, at ssa.Instruction, construct, detail string) {
	pos := "-"
	if at != nil {
		pos = c.P.posOf(at)
	} else if fn != nil {
		pos = c.P.pos(fn.Pos())
	}
	c.touch(fn)
	c.Obs = append(c.Obs, Obligation{Property: c.Property, Clause: c.clause, Rule: c.rule, Func: fname(fn),
		Construct: construct, Pos: pos, Status: st, Detail: detail, Config: c.P.Config})
}

// Check records an obligation: ok if cond holds, else violation.
func (c *Ctx) Check(cond bool, fn *ssa.Function, at ssa.Instruction, construct, failDetail string) bool {
	if cond {
		c.add(OK, fn, at, construct, "")
	} else {
		c.add(Violation, fn, at, construct, failDetail)
	}
	return cond
}

func (c *Ctx) Undecided(fn *ssa.Function, at ssa.Instruction, construct, detail string) {
	c.add(Undecided, fn, at, construct, detail)
}

func (c *Ctx) Note(format string, args ...interface{}) {
	c.Notes = append(c.Notes, fmt.Sprintf(format, args...))
}

func (c *Prog) posOf(in ssa.Instruction) string {
	if in == nil {
		return "-"
	}
	if in.Pos().IsValid() {
		return c.pos(in.Pos())
	}
	// fall back to operands / neighbours in the block
	if v, ok := in.(ssa.Value); ok {
		for _, r := range referrersOf(v) {
			if r.Pos().IsValid() {
				return c.pos(r.Pos())
			}
		}
	}
	b := in.Block()
	for _, x := range b.Instrs {
		if x.Pos().IsValid() {
			return c.pos(x.Pos())
		}
	}
	return c.pos(in.Parent().Pos())
}

// ---------------------------------------------------------------- findings

type Finding struct {
	Property  string `json:"property"`
	Clause    string `json:"clause"`
	Func      string `json:"function"`
	Construct string `json:"construct"`
	What      string `json:"what"`
	Status    string `json:"status"` // "known" or "fixed"
	Commit    string `json:"commit,omitempty"`
}

func loadFindings(path string) ([]Finding, error) {
	bs, err := ioutil.ReadFile(path)
	if err != nil {
		if os.IsNotExist(err) {
			return nil, nil
		}
		return nil, err
	}
	var doc struct {
		Findings []Finding `json:"findings"`
	}
	if err := json.Unmarshal(bs, &doc); err != nil {
		return nil, fmt.Errorf("%s: %v", path, err)
	}
	return doc.Findings, nil
}

// ---------------------------------------------------------------- evidence

type runInfo struct {
	Property string
	Tier     string
	Seed     int64
	WallS    float64
	Configs  []string
	Packages int
	Funcs    int
	Calls    int
	Cmd      string
	Extra    map[string]interface{}
}

func writeEvidence(dir string, ri runInfo, obs []Obligation, notes []string, explanation string, assumptions []string, mins map[string]int) error {
	total, ok, viol, known, und := 0, 0, 0, 0, 0
	distinct := map[string]bool{}
	perClause := map[string]int{}
	funcs := map[string]bool{}
	for _, o := range obs {
		total++
		switch o.Status {
		case OK:
			ok++
		case Violation:
			viol++
		case Known:
			known++
		case Undecided:
			und++
		}
		distinct[o.Key()] = true
		perClause[o.Clause]++
		funcs[o.Func] = true
	}
	samples := []interface{}{}
	// one sample per clause first, then fill up
	seenClause := map[string]bool{}
	for _, o := range obs {
		if !seenClause[o.Clause] || o.Status != OK {
			seenClause[o.Clause] = true
			samples = append(samples, o)
		}
	}
	if len(samples) > 60 {
		samples = samples[:60]
	}
	var fl []string
	for f := range funcs {
		fl = append(fl, f)
	}
	sort.Strings(fl)
	cov := map[string]interface{}{
		"explanation":                explanation,
		"obligations":                total,
		"discharged":                 ok,
		"evaluations":                total,
		"distinct_nontrivial":        len(distinct),
		"rule":                       "one obligation per (clause, function, construct) rule instance found in the resolved program; distinct = distinct keys; every obligation is anchored to a real SSA construct of /repo's current tree (non-trivial by construction: rules that match nothing are reported undecided, not ok)",
		"samples":                    samples,
		"checker_cmd":                ri.Cmd,
		"trusted_base":               []string{"go/types", "go/packages", "golang.org/x/tools/go/ssa v0.29.0", "callgraph/vta", "this checker (/verif/checker)"},
		"obligations_per_clause":     perClause,
		"min_instances":              mins,
		"functions_with_obligations": fl,
		"packages_analysed":          ri.Packages,
		"functions_analysed":         ri.Funcs,
		"call_sites_analysed":        ri.Calls,
		"configs":                    ri.Configs,
		"known_findings":             known,
		"undecided":                  und,
		"notes":                      notes,
		"exhaustive":                 false,
	}
	for k, v := range ri.Extra {
		cov[k] = v
	}
	ev := map[string]interface{}{
		"property_id": ri.Property,
		"tier":        ri.Tier,
		"seed":        ri.Seed,
		"level":       "other",
		"coverage":    cov,
		"assumptions": assumptions,
		"wall_s":      ri.WallS,
		"violations":  viol,
	}
	bs, err := json.MarshalIndent(ev, "", " ")
	if err != nil {
		return err
	}
	if err := os.MkdirAll(dir, 0755); err != nil {
		return err
	}
	return ioutil.WriteFile(filepath.Join(dir, ri.Property+".json"), bs, 0644)
}

func diag(o Obligation) string {
	return fmt.Sprintf("%s: [%s/%s] %s: %s — %s", o.Pos, o.Clause, o.Rule, o.Func, o.Construct, o.Detail)
}

func sortObs(obs []Obligation) {
	sort.SliceStable(obs, func(i, j int) bool {
		if obs[i].Clause != obs[j].Clause {
			return obs[i].Clause < obs[j].Clause
		}
		if obs[i].Func != obs[j].Func {
			return obs[i].Func < obs[j].Func
		}
		return strings.Compare(obs[i].Construct, obs[j].Construct) < 0
	})
}

func writeReplay(path string, obs []Obligation) {
	var v []Obligation
	for _, o := range obs {
		if o.Status == Violation {
			v = append(v, o)
		}
	}
	bs, _ := json.MarshalIndent(map[string]interface{}{"violations": v}, "", " ")
	ioutil.WriteFile(path, bs, 0644)
}

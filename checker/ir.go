package main

import (
	"go/constant"
	"go/token"
	"go/types"
	"sort"

	"golang.org/x/tools/go/ssa"
)

// FuncInfo caches per-function analyses. Instrs, path searches, dominance and
// facts look through transparent helpers (see transparent.go).
type FuncInfo struct {
	P      *Prog
	Fn     *ssa.Function
	idx    map[ssa.Instruction]int // index inside its block (all module instructions)
	facts  map[*ssa.BasicBlock]map[Fact]bool
	pdom   map[*ssa.BasicBlock]map[*ssa.BasicBlock]bool
	Instrs []ssa.Instruction
}

func (p *Prog) Info(fn *ssa.Function) *FuncInfo {
	if fi, ok := p.infoCache[fn]; ok {
		return fi
	}
	if fn == nil || fn.Blocks == nil {
		undecidedf("function %v has no body", fn)
	}
	fi := &FuncInfo{P: p, Fn: fn, idx: instrIdx}
	fi.Instrs = p.flatInstrs(fn, 0)
	p.infoCache[fn] = fi
	return fi
}

// ---------------------------------------------------------------- dominance

// Dominates: a executes before b on every path from the entry of fi.Fn to b.
func (fi *FuncInfo) Dominates(a, b ssa.Instruction) bool {
	if a == b {
		return false
	}
	if a.Parent() == b.Parent() {
		ba, bb := a.Block(), b.Block()
		if ba == bb {
			return fi.idx[a] < fi.idx[b]
		}
		return ba.Dominates(bb)
	}
	// across a transparent helper boundary: no path from the entry reaches b without executing a
	isB := func(x ssa.Instruction) bool { return x == b }
	if fi.search(pathPoint{fi.Fn.Blocks[0], 0}, isB, nil, nil) == nil {
		return false // b not reachable from this root at all
	}
	return fi.search(pathPoint{fi.Fn.Blocks[0], 0}, isB, func(x ssa.Instruction) bool { return x == a }, nil) == nil
}

// ---------------------------------------------------------------- must-facts

// Fact: ssa value V (a boolean) is known to equal Val.
type Fact struct {
	V   ssa.Value
	Val bool
}

// normalise strips boolean negation.
func normFact(v ssa.Value, val bool) Fact {
	for {
		if u, ok := v.(*ssa.UnOp); ok && u.Op == token.NOT {
			v = u.X
			val = !val
			continue
		}
		return Fact{v, val}
	}
}

// Facts computes, for every block, the set of branch conditions that hold on
// EVERY path from the entry to the start of that block (forward must-analysis
// over the CFG; meet = intersection). `a && b` contributes both conjuncts on
// the true side, `a || b` contributes neither – exactly the information a
// guard rule may rely on.
func (fi *FuncInfo) Facts() map[*ssa.BasicBlock]map[Fact]bool {
	return fi.P.factsOf(fi.Fn)
}

// factsOf computes the per-block must-facts of one function (cached).
func (p *Prog) factsOf(fn *ssa.Function) map[*ssa.BasicBlock]map[Fact]bool {
	if p.factCache == nil {
		p.factCache = map[*ssa.Function]map[*ssa.BasicBlock]map[Fact]bool{}
	}
	if f, ok := p.factCache[fn]; ok {
		return f
	}
	in := map[*ssa.BasicBlock]map[Fact]bool{}
	const top = -1
	state := map[*ssa.BasicBlock]int{} // 0 = computed, top = unvisited
	for _, b := range fn.Blocks {
		state[b] = top
	}
	edgeFacts := func(p, s *ssa.BasicBlock) []Fact {
		if len(p.Instrs) == 0 {
			return nil
		}
		ifi, ok := p.Instrs[len(p.Instrs)-1].(*ssa.If)
		if !ok || len(p.Succs) != 2 || p.Succs[0] == p.Succs[1] {
			return nil
		}
		if p.Succs[0] == s {
			return []Fact{normFact(ifi.Cond, true)}
		}
		return []Fact{normFact(ifi.Cond, false)}
	}
	out := func(p *ssa.BasicBlock) map[Fact]bool { return in[p] } // blocks add nothing themselves
	in[fn.Blocks[0]] = map[Fact]bool{}
	state[fn.Blocks[0]] = 0
	changed := true
	for changed {
		changed = false
		for _, b := range fn.Blocks {
			if b == fn.Blocks[0] {
				continue
			}
			var acc map[Fact]bool
			first := true
			for _, p := range b.Preds {
				if state[p] == top {
					continue // unvisited predecessor = top element
				}
				cur := map[Fact]bool{}
				for f := range out(p) {
					cur[f] = true
				}
				for _, f := range edgeFacts(p, b) {
					cur[f] = true
				}
				if first {
					acc = cur
					first = false
				} else {
					for f := range acc {
						if !cur[f] {
							delete(acc, f)
						}
					}
				}
			}
			if first {
				continue // no visited predecessor yet
			}
			old, seen := in[b]
			if !seen || len(old) != len(acc) || state[b] == top {
				in[b] = acc
				state[b] = 0
				changed = true
			} else {
				same := true
				for f := range acc {
					if !old[f] {
						same = false
						break
					}
				}
				if !same {
					in[b] = acc
					changed = true
				}
			}
		}
	}
	for _, b := range fn.Blocks {
		if in[b] == nil {
			in[b] = map[Fact]bool{} // unreachable
		}
	}
	p.factCache[fn] = in
	return in
}

// FactsAt returns the facts holding at instruction `at`: the must-facts of its
// own function plus, when that function is a transparent helper, the facts
// holding at its unique call site.
func (fi *FuncInfo) FactsAt(at ssa.Instruction) []Fact {
	set := map[Fact]bool{}
	cur := at
	for d := 0; d < 10 && cur != nil; d++ {
		fn := cur.Parent()
		for f := range fi.P.factsOf(fn)[cur.Block()] {
			set[f] = true
		}
		// facts established by transparent helpers that were called (and returned)
		// before this point on every path
		for _, b := range fn.Blocks {
			for _, in := range b.Instrs {
				h := fi.P.helperCall(in)
				if h == nil {
					continue
				}
				before := (in.Block() == cur.Block() && fi.idx[in] < fi.idx[cur]) || (in.Block() != cur.Block() && in.Block().Dominates(cur.Block()))
				if !before {
					continue
				}
				for f := range fi.P.exitFacts(h, 0) {
					set[f] = true
				}
			}
		}
		l, ok := fi.P.helpers[fn]
		if !ok || fn == fi.Fn {
			break
		}
		cur = l.call
	}
	// short-circuit conditions that go/ssa materialises as boolean phis
	// (`a && b` = phi[false, b], `a || b` = phi[true, b]): a known value of the
	// phi that excludes all constant edges implies the facts of the remaining edge
	for round := 0; round < 4; round++ {
		added := false
		for f := range set {
			ph, ok := f.V.(*ssa.Phi)
			if !ok {
				continue
			}
			k := -1
			okShape := true
			for i, e := range ph.Edges {
				if b, isC := constBool(e); isC {
					if b == f.Val {
						okShape = false // the phi's value may stem from a constant edge
					}
					continue
				}
				if k >= 0 {
					okShape = false
				}
				k = i
			}
			if !okShape || k < 0 {
				continue
			}
			nf := normFact(ph.Edges[k], f.Val)
			if !set[nf] {
				set[nf] = true
				added = true
			}
			for ef := range fi.EdgeFactSet(ph.Block().Preds[k], ph.Block()) {
				if !set[ef] {
					set[ef] = true
					added = true
				}
			}
		}
		if !added {
			break
		}
	}
	var out []Fact
	for f := range set {
		out = append(out, f)
	}
	sort.Slice(out, func(i, j int) bool { return out[i].V.Name() < out[j].V.Name() })
	return out
}

// Guarded reports whether some fact at `at` satisfies pred.
func (fi *FuncInfo) Guarded(at ssa.Instruction, pred func(v ssa.Value, val bool) bool) bool {
	for _, f := range fi.FactsAt(at) {
		if pred(f.V, f.Val) {
			return true
		}
	}
	return false
}

// ---------------------------------------------------------------- paths

type pathPoint struct {
	b *ssa.BasicBlock
	i int
}

// PathAvoiding searches a CFG path that starts right after `from` (or at the
// function entry when from==nil), reaches an instruction for which target
// returns true, and does not execute any instruction for which barrier
// returns true before. It returns the witness target or nil.
func (fi *FuncInfo) PathAvoiding(from ssa.Instruction, target, barrier func(ssa.Instruction) bool) ssa.Instruction {
	var start pathPoint
	if from == nil {
		start = pathPoint{fi.Fn.Blocks[0], 0}
	} else {
		start = pathPoint{from.Block(), fi.idx[from] + 1}
		// starting right after a call of a transparent helper means after the helper returned
	}
	return fi.search(start, target, barrier, nil)
}

// search is the path engine: depth-first over (block, index) positions of the
// flattened program (transparent helpers are entered at their call and left
// at their returns). target/barrier are not applied to the virtual return
// instructions of helpers.
func (fi *FuncInfo) search(start pathPoint, target, barrier func(ssa.Instruction) bool, skipEdge func(p, s *ssa.BasicBlock) bool) ssa.Instruction {
	p := fi.P
	seen := map[pathPoint]bool{}
	work := []pathPoint{start}
	for len(work) > 0 {
		pt := work[len(work)-1]
		work = work[:len(work)-1]
		if seen[pt] {
			continue
		}
		seen[pt] = true
		fallthroughSuccs := true
		for i := pt.i; i < len(pt.b.Instrs); i++ {
			in := pt.b.Instrs[i]
			fn := in.Parent()
			if _, isRet := in.(*ssa.Return); isRet && fn != fi.Fn {
				if l, ok := p.helpers[fn]; ok {
					// leave the helper: continue after its call site
					work = append(work, pathPoint{l.call.Block(), fi.idx[l.call] + 1})
					fallthroughSuccs = false
					break
				}
			}
			if target(in) {
				return in
			}
			if barrier != nil && barrier(in) {
				fallthroughSuccs = false
				break
			}
			if h := p.helperCall(in); h != nil {
				work = append(work, pathPoint{h.Blocks[0], 0})
				fallthroughSuccs = false
				break
			}
		}
		if !fallthroughSuccs {
			continue
		}
		for _, s := range pt.b.Succs {
			if skipEdge != nil && skipEdge(pt.b, s) {
				continue
			}
			work = append(work, pathPoint{s, 0})
		}
	}
	return nil
}

func isReturn(in ssa.Instruction) bool { _, ok := in.(*ssa.Return); return ok }
func isExit(in ssa.Instruction) bool {
	switch in.(type) {
	case *ssa.Return:
		return true
	}
	return false
}

// MustPrecede: every path from entry to `site` executes an instruction
// satisfying pre before.
func (fi *FuncInfo) MustPrecede(site ssa.Instruction, pre func(ssa.Instruction) bool) bool {
	return fi.PathAvoiding(nil, func(in ssa.Instruction) bool { return in == site }, pre) == nil
}

// MustFollow: every path from `site` to a normal return executes an
// instruction satisfying post (panics are exempt).
func (fi *FuncInfo) MustFollow(site ssa.Instruction, post func(ssa.Instruction) bool) bool {
	return fi.PathAvoiding(site, isReturn, post) == nil
}

// Reaches: some path from a to b.
func (fi *FuncInfo) Reaches(a, b ssa.Instruction) bool {
	return fi.PathAvoiding(a, func(in ssa.Instruction) bool { return in == b }, nil) != nil
}

// ---------------------------------------------------------------- values

// strip removes representation-only conversions.
func strip(v ssa.Value) ssa.Value {
	for n := 0; n < 64; n++ {
		if a, ok := valueAlias[v]; ok && a != nil {
			v = a
			continue
		}
		switch x := v.(type) {
		case *ssa.ChangeType:
			v = x.X
		case *ssa.Convert:
			v = x.X
		case *ssa.MakeInterface:
			v = x.X
		case *ssa.ChangeInterface:
			v = x.X
		default:
			return v
		}
	}
	return v
}

// fieldVar returns the struct field selected by a FieldAddr/Field value.
func fieldVarOf(v ssa.Value) *types.Var {
	switch x := v.(type) {
	case *ssa.FieldAddr:
		t := x.X.Type().Underlying().(*types.Pointer).Elem().Underlying().(*types.Struct)
		return t.Field(x.Field)
	case *ssa.Field:
		t := x.X.Type().Underlying().(*types.Struct)
		return t.Field(x.Field)
	}
	return nil
}

// loadedField: v is a load (*addr) of a struct field, or a Field extraction.
// Returns the field and the base (struct pointer/value) it was read from.
func loadedField(v ssa.Value) (*types.Var, ssa.Value) {
	v = strip(v)
	switch x := v.(type) {
	case *ssa.UnOp:
		if x.Op == token.MUL {
			if fa, ok := x.X.(*ssa.FieldAddr); ok {
				return fieldVarOf(fa), fa.X
			}
		}
	case *ssa.Field:
		return fieldVarOf(x), x.X
	}
	return nil, nil
}

// addrField: v is the address of a struct field (possibly converted).
func addrField(v ssa.Value) (*types.Var, ssa.Value) {
	v = strip(v)
	if fa, ok := v.(*ssa.FieldAddr); ok {
		return fieldVarOf(fa), fa.X
	}
	return nil, nil
}

// fieldPath returns the chain of field names leading to v, innermost last:
// w.Nitro.Config.insCmp -> [Nitro Config insCmp]; also the root value.
func fieldPath(v ssa.Value) ([]*types.Var, ssa.Value) {
	var chain []*types.Var
	for {
		v = strip(v)
		switch x := v.(type) {
		case *ssa.UnOp:
			if x.Op == token.MUL {
				v = x.X
				continue
			}
			return chain, v
		case *ssa.FieldAddr:
			chain = append([]*types.Var{fieldVarOf(x)}, chain...)
			v = x.X
		case *ssa.Field:
			chain = append([]*types.Var{fieldVarOf(x)}, chain...)
			v = x.X
		default:
			return chain, v
		}
	}
}

// lastField returns the innermost field of the access path of v (nil if v is
// not a field access).
func lastField(v ssa.Value) *types.Var {
	ch, _ := fieldPath(v)
	if len(ch) == 0 {
		return nil
	}
	return ch[len(ch)-1]
}

func constInt(v ssa.Value) (int64, bool) {
	v = strip(v)
	c, ok := v.(*ssa.Const)
	if !ok || c.Value == nil {
		return 0, false
	}
	if c.Value.Kind() != constant.Int {
		return 0, false
	}
	i, ok := constant.Int64Val(c.Value)
	return i, ok
}

func isNilConst(v ssa.Value) bool {
	c, ok := strip(v).(*ssa.Const)
	return ok && c.Value == nil
}

func constBool(v ssa.Value) (bool, bool) {
	c, ok := v.(*ssa.Const)
	if !ok || c.Value == nil || c.Value.Kind() != constant.Bool {
		return false, false
	}
	return constant.BoolVal(c.Value), true
}

// ---------------------------------------------------------------- calls

// callOf returns the CallCommon if in is a call/defer/go.
func callOf(in ssa.Instruction) *ssa.CallCommon {
	if c, ok := in.(ssa.CallInstruction); ok {
		return c.Common()
	}
	return nil
}

// Callees resolves the possible callees of a call site: the static callee, or
// the VTA call-graph edges for interface invokes and func values.
func (p *Prog) Callees(in ssa.Instruction) []*ssa.Function {
	c := callOf(in)
	if c == nil {
		return nil
	}
	if f := c.StaticCallee(); f != nil {
		return []*ssa.Function{f}
	}
	n := p.CG.Nodes[in.Parent()]
	if n == nil {
		return nil
	}
	var out []*ssa.Function
	seen := map[*ssa.Function]bool{}
	for _, e := range n.Out {
		if e.Site == in && !seen[e.Callee.Func] {
			seen[e.Callee.Func] = true
			out = append(out, e.Callee.Func)
		}
	}
	sort.Slice(out, func(i, j int) bool { return out[i].String() < out[j].String() })
	return out
}

// CallsAny: call site may call one of fns (resolved).
func (p *Prog) CallsAny(in ssa.Instruction, fns ...*ssa.Function) bool {
	for _, c := range p.Callees(in) {
		for _, f := range fns {
			if f != nil && c == f {
				return true
			}
		}
	}
	return false
}

// IsCall: a plain call (not defer/go) to one of fns.
func (p *Prog) IsCall(in ssa.Instruction, fns ...*ssa.Function) bool {
	if _, ok := in.(*ssa.Call); !ok {
		return false
	}
	return p.CallsAny(in, fns...)
}

// isBuiltin: call to the named builtin.
func isBuiltin(in ssa.Instruction, name string) bool {
	c := callOf(in)
	if c == nil {
		return false
	}
	b, ok := c.Value.(*ssa.Builtin)
	return ok && b.Name() == name
}

// args returns the actual arguments including the receiver as args[0] for
// static method calls (go/ssa already does that for non-invoke calls).
func callArgs(in ssa.Instruction) []ssa.Value {
	c := callOf(in)
	if c == nil {
		return nil
	}
	if c.IsInvoke() {
		return append([]ssa.Value{c.Value}, c.Args...)
	}
	return c.Args
}

// CallSites lists the call instructions in fn (incl. defer/go) that may call
// one of fns.
func (p *Prog) CallSites(fn *ssa.Function, fns ...*ssa.Function) []ssa.Instruction {
	var out []ssa.Instruction
	for _, in := range p.Info(fn).Instrs {
		if callOf(in) != nil && p.CallsAny(in, fns...) {
			out = append(out, in)
		}
	}
	return out
}

// AllCallSites lists call sites to fns over all module functions.
func (p *Prog) AllCallSites(fns ...*ssa.Function) []ssa.Instruction {
	var out []ssa.Instruction
	for _, fn := range p.Funcs {
		out = append(out, p.ownCallSites(fn, fns...)...)
	}
	return out
}

// WithAnon returns fn and all anonymous functions nested in it.
func WithAnon(fn *ssa.Function) []*ssa.Function {
	out := []*ssa.Function{fn}
	for _, a := range fn.AnonFuncs {
		out = append(out, WithAnon(a)...)
	}
	return out
}

// extractOf: if v is Extract(tuple, i) returns (tuple, i).
func extractOf(v ssa.Value) (ssa.Value, int) {
	if e, ok := v.(*ssa.Extract); ok {
		return e.Tuple, e.Index
	}
	return nil, -1
}

// ---------------------------------------------------------------- local cells

// resolveCell: if v is a load from a local Alloc (a variable spilled because
// a closure captures it, e.g. named results read by a deferred func), and a
// unique Store reaches the load, return the stored value. Otherwise v.
func (fi *FuncInfo) resolveCell(v ssa.Value) ssa.Value {
	u, ok := v.(*ssa.UnOp)
	if !ok || u.Op != token.MUL {
		return v
	}
	var cell ssa.Value
	switch a := u.X.(type) {
	case *ssa.Alloc:
		if a.Parent() != fi.Fn {
			return v
		}
		cell = a
	case *ssa.FreeVar:
		cell = a // captured variable: only stores inside this closure are visible
	default:
		return v
	}
	isStore := func(in ssa.Instruction) bool {
		st, ok := in.(*ssa.Store)
		return ok && st.Addr == cell
	}
	var reaching []*ssa.Store
	for _, in := range fi.Instrs {
		if st, ok := in.(*ssa.Store); ok && st.Addr == cell {
			if fi.PathAvoiding(st, func(in ssa.Instruction) bool { return in == ssa.Instruction(u) }, isStore) != nil {
				reaching = append(reaching, st)
			}
		}
	}
	// is the initial value (no store on the path) reaching?
	initReaches := fi.PathAvoiding(nil, func(in ssa.Instruction) bool { return in == ssa.Instruction(u) }, isStore) != nil
	if len(reaching) == 1 && !initReaches {
		return reaching[0].Val
	}
	return v
}

// cellAddr returns the variable cell (local Alloc or captured FreeVar) that v
// is loaded from, nil otherwise.
func cellAddr(v ssa.Value) ssa.Value {
	u, ok := v.(*ssa.UnOp)
	if !ok || u.Op != token.MUL {
		return nil
	}
	switch a := u.X.(type) {
	case *ssa.Alloc:
		return a
	case *ssa.FreeVar:
		return a
	}
	return nil
}

// cellOf: the local Alloc a value is loaded from (nil otherwise).
func cellOf(v ssa.Value) *ssa.Alloc {
	u, ok := v.(*ssa.UnOp)
	if !ok || u.Op != token.MUL {
		return nil
	}
	al, _ := u.X.(*ssa.Alloc)
	return al
}

// ---------------------------------------------------------------- comparisons

// Cmp is a normalised integer/pointer comparison X op Y.
type Cmp struct {
	Op   token.Token
	X, Y ssa.Value
}

func negOp(op token.Token) token.Token {
	switch op {
	case token.EQL:
		return token.NEQ
	case token.NEQ:
		return token.EQL
	case token.LSS:
		return token.GEQ
	case token.GEQ:
		return token.LSS
	case token.GTR:
		return token.LEQ
	case token.LEQ:
		return token.GTR
	}
	return token.ILLEGAL
}

func swapOp(op token.Token) token.Token {
	switch op {
	case token.LSS:
		return token.GTR
	case token.GTR:
		return token.LSS
	case token.LEQ:
		return token.GEQ
	case token.GEQ:
		return token.LEQ
	}
	return op
}

// cmpOf interprets fact (v==val) as a comparison, if v is one.
func cmpOf(v ssa.Value, val bool) (Cmp, bool) {
	f := normFact(v, val)
	b, ok := f.V.(*ssa.BinOp)
	if !ok {
		// the boolean result of a private single-return helper is the comparison it returns
		if a := seeRet(f.V); a != f.V {
			f = normFact(a, f.Val)
			b, ok = f.V.(*ssa.BinOp)
		}
		if !ok {
			return Cmp{}, false
		}
	}
	switch b.Op {
	case token.EQL, token.NEQ, token.LSS, token.LEQ, token.GTR, token.GEQ:
	default:
		return Cmp{}, false
	}
	op := b.Op
	if !f.Val {
		op = negOp(op)
	}
	return Cmp{op, b.X, b.Y}, true
}

// matchCmp: the comparison relates a value satisfying mx with one satisfying
// my by operator op (operands may appear swapped).
func (c Cmp) match(op token.Token, mx, my func(ssa.Value) bool) bool {
	if c.Op == op && mx(c.X) && my(c.Y) {
		return true
	}
	if swapOp(c.Op) == op && mx(c.Y) && my(c.X) {
		return true
	}
	return false
}

// referrersOf returns the instructions using v.
func referrersOf(v ssa.Value) []ssa.Instruction {
	r := v.Referrers()
	if r == nil {
		return nil
	}
	return *r
}

// EdgeFactSet returns the must-facts that hold when control flows from block
// p into block b (facts at the start of p plus the branch condition).
func (fi *FuncInfo) EdgeFactSet(p, b *ssa.BasicBlock) map[Fact]bool {
	out := map[Fact]bool{}
	for f := range fi.P.factsOf(p.Parent())[p] {
		out[f] = true
	}
	if len(p.Instrs) > 0 {
		if ifi, ok := p.Instrs[len(p.Instrs)-1].(*ssa.If); ok && len(p.Succs) == 2 && p.Succs[0] != p.Succs[1] {
			if p.Succs[0] == b {
				out[normFact(ifi.Cond, true)] = true
			} else if p.Succs[1] == b {
				out[normFact(ifi.Cond, false)] = true
			}
		}
	}
	return out
}

// Returns lists the normal return instructions (the synthetic recover block,
// which only re-reads the result cells after a recovered panic, is excluded).
func (fi *FuncInfo) Returns() []*ssa.Return {
	var out []*ssa.Return
	for _, b := range fi.Fn.Blocks {
		if b == fi.Fn.Recover {
			continue
		}
		for _, in := range b.Instrs {
			if r, ok := in.(*ssa.Return); ok {
				out = append(out, r)
			}
		}
	}
	return out
}

// RetVal returns the i-th result of ret with defer-spilled result cells
// resolved to the value stored last.
func (fi *FuncInfo) RetVal(ret *ssa.Return, i int) ssa.Value {
	return fi.resolveCell(ret.Results[i])
}

// boolAllPaths evaluates a boolean value over all ways it can have been
// computed: constants, phis (each operand refined by the must-facts of its
// incoming edge). Returns the set of possible values as (canTrue, canFalse);
// both true = unknown.
func (fi *FuncInfo) boolAllPaths(v ssa.Value, seen map[ssa.Value]bool) (bool, bool) {
	if b, ok := constBool(v); ok {
		return b, !b
	}
	if seen[v] {
		return false, false // cycle contributes nothing new
	}
	seen[v] = true
	ph, ok := v.(*ssa.Phi)
	if !ok {
		return true, true
	}
	ct, cf := false, false
	for i, e := range ph.Edges {
		ef := fi.EdgeFactSet(ph.Block().Preds[i], ph.Block())
		f := normFact(e, true)
		switch {
		case ef[Fact{f.V, f.Val}]:
			ct = true
		case ef[Fact{f.V, !f.Val}]:
			cf = true
		default:
			t, fl := fi.boolAllPaths(e, seen)
			ct = ct || t
			cf = cf || fl
		}
	}
	return ct, cf
}

// PathFromEdgePruned is PathFromBlock with one refinement: when a block is
// entered along a known edge and its branch condition is a phi of that block,
// the operand for that edge is evaluated with boolAllPaths and an infeasible
// successor is not followed (flag variables such as `skip first time`).
func (fi *FuncInfo) PathFromEdgePruned(pred, b *ssa.BasicBlock, target, barrier func(ssa.Instruction) bool) ssa.Instruction {
	p := fi.P
	type st struct {
		from *ssa.BasicBlock
		b    *ssa.BasicBlock
		i    int
	}
	seen := map[st]bool{}
	work := []st{{pred, b, 0}}
	for len(work) > 0 {
		cur := work[len(work)-1]
		work = work[:len(work)-1]
		if seen[cur] {
			continue
		}
		seen[cur] = true
		fall := true
		for i := cur.i; i < len(cur.b.Instrs); i++ {
			in := cur.b.Instrs[i]
			fn := in.Parent()
			if _, isRet := in.(*ssa.Return); isRet && fn != fi.Fn {
				if l, ok := p.helpers[fn]; ok {
					work = append(work, st{nil, l.call.Block(), fi.idx[l.call] + 1})
					fall = false
					break
				}
			}
			if target(in) {
				return in
			}
			if barrier != nil && barrier(in) {
				fall = false
				break
			}
			if h := p.helperCall(in); h != nil {
				work = append(work, st{nil, h.Blocks[0], 0})
				fall = false
				break
			}
		}
		if !fall {
			continue
		}
		succs := cur.b.Succs
		if len(cur.b.Instrs) > 0 {
			if ifi, ok := cur.b.Instrs[len(cur.b.Instrs)-1].(*ssa.If); ok && len(succs) == 2 && cur.from != nil {
				f := normFact(ifi.Cond, true)
				if ph, ok := f.V.(*ssa.Phi); ok && ph.Block() == cur.b {
					for i, pp := range cur.b.Preds {
						if pp == cur.from {
							ct, cf := fi.boolAllPaths(ph.Edges[i], map[ssa.Value]bool{})
							if !f.Val {
								ct, cf = cf, ct
							}
							if ct && !cf {
								succs = []*ssa.BasicBlock{cur.b.Succs[0]}
							} else if cf && !ct {
								succs = []*ssa.BasicBlock{cur.b.Succs[1]}
							}
						}
					}
				}
			}
		}
		for _, s := range succs {
			work = append(work, st{cur.b, s, 0})
		}
	}
	return nil
}

// PathAvoidingEdges is PathAvoiding with an additional filter on CFG edges
// that must not be taken.
func (fi *FuncInfo) PathAvoidingEdges(from ssa.Instruction, target, barrier func(ssa.Instruction) bool, skipEdge func(p, s *ssa.BasicBlock) bool) ssa.Instruction {
	var start pathPoint
	if from == nil {
		start = pathPoint{fi.Fn.Blocks[0], 0}
	} else {
		start = pathPoint{from.Block(), fi.idx[from] + 1}
	}
	return fi.search(start, target, barrier, skipEdge)
}

// edgeWhere returns a predicate selecting the CFG edges on which the fact
// (comparison op between a value matching mx and one matching my) holds.
func (fi *FuncInfo) edgeWhere(op token.Token, mx, my func(ssa.Value) bool) func(p, s *ssa.BasicBlock) bool {
	return func(p, s *ssa.BasicBlock) bool {
		if len(p.Instrs) == 0 {
			return false
		}
		ifi, ok := p.Instrs[len(p.Instrs)-1].(*ssa.If)
		if !ok || len(p.Succs) != 2 || p.Succs[0] == p.Succs[1] {
			return false
		}
		val := p.Succs[0] == s
		cmp, ok := cmpOf(ifi.Cond, val)
		return ok && cmp.match(op, mx, my)
	}
}

// exitFacts: facts that hold whenever the (transparent) helper h returns
// normally: the intersection over its return sites of the facts there.
func (p *Prog) exitFacts(h *ssa.Function, depth int) map[Fact]bool {
	if p.exitCache == nil {
		p.exitCache = map[*ssa.Function]map[Fact]bool{}
	}
	if f, ok := p.exitCache[h]; ok {
		return f
	}
	p.exitCache[h] = map[Fact]bool{} // recursion guard
	var acc map[Fact]bool
	facts := p.factsOf(h)
	for _, b := range h.Blocks {
		if b == h.Recover {
			continue
		}
		for _, in := range b.Instrs {
			if _, ok := in.(*ssa.Return); !ok {
				continue
			}
			cur := map[Fact]bool{}
			for f := range facts[b] {
				cur[f] = true
			}
			if depth < 4 {
				for _, b2 := range h.Blocks {
					for _, in2 := range b2.Instrs {
						if h2 := p.helperCall(in2); h2 != nil && (b2 == b || b2.Dominates(b)) {
							for f := range p.exitFacts(h2, depth+1) {
								cur[f] = true
							}
						}
					}
				}
			}
			if acc == nil {
				acc = cur
			} else {
				for f := range acc {
					if !cur[f] {
						delete(acc, f)
					}
				}
			}
		}
	}
	if acc == nil {
		acc = map[Fact]bool{}
	}
	p.exitCache[h] = acc
	return acc
}

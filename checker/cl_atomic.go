package main

import (
	"go/types"
	"sort"
	"strings"

	"golang.org/x/tools/go/ssa"
)

// atomicFields: every struct field that is the target of a sync/atomic
// operation anywhere in the module.
func (p *Prog) atomicFields() map[*types.Var]bool {
	out := map[*types.Var]bool{}
	for _, fn := range p.Funcs {
		for _, in := range p.Own(fn) {
			if k, addr := atomicOp(in); k != "" {
				if f, _ := addrField(addr); f != nil {
					out[f] = true
				}
				// element of an array field: &s.levelNodesCount[i]
				if ia, ok := strip(addr).(*ssa.IndexAddr); ok {
					if f, _ := addrField(ia.X); f != nil {
						out[f] = true
					}
				}
			}
		}
	}
	return out
}

type plainException struct {
	fn, field, why string
}

// C03.b atomic-write discipline (L10): a field that is accessed with
// sync/atomic anywhere must never be written plainly once its object is shared.
func clAtomicWriteDiscipline(c *Ctx) {
	p := c.P
	exceptions := []plainException{
		{"nitro.(*Nitro).LoadFromDisk", "itemsCount", "restore precedes any writer or snapshot of the instance by API contract"},
		{"nitro.(*Nitro).allocItem", "deadSn", "the allocator initialises a block nobody else can see yet"},
		{"nitro.(*Nitro).allocItem", "bornSn", "the allocator initialises a block nobody else can see yet"},
		{"skiplist.(*Stats).Merge", "*", "Merge zeroes its SOURCE statistics, which are goroutine-local by contract (owner rule decided under C14.d)"},
		{"skiplist.(*Stats).IsLocal", "*", "configuration before use"},
		{"nitro.(*Nitro).ptrToItem", "*", "copy into a private item"},
		{"nitro.(*Nitro).LoadFromDisk", "DeltaRestored", "reset before the loader goroutines start / per-goroutine restore writer's own counter (Writer.resSts), merged atomically afterwards"},
		{"nitro.(*Nitro).LoadFromDisk", "DeltaRestoreFailed", "reset before the loader goroutines start / per-goroutine restore writer's own counter (Writer.resSts), merged atomically afterwards"},
	}
	af := p.atomicFields()
	var fields []*types.Var
	for f := range af {
		fields = append(fields, f)
	}
	sort.Slice(fields, func(i, j int) bool { return fields[i].Name() < fields[j].Name() })
	cnt := counter{}
	nf := 0
	for _, f := range fields {
		// only module-defined fields
		if f.Pkg() == nil || len(f.Pkg().Path()) < len(modPath) || f.Pkg().Path()[:len(modPath)] != modPath {
			continue
		}
		nf++
		writes := p.fieldWrites(f)
		nPlain := 0
		for _, w := range writes {
			if w.kind != "store" {
				continue
			}
			nPlain++
			ok := isFreshBase(w.base) || p.freshItemIn(w.fn, w.base)
			why := ""
			for _, e := range exceptions {
				if (e.fn == fname(p.Root(w.fn)) || strings.HasPrefix(fname(p.Root(w.fn)), e.fn+"$")) && (e.field == "*" || e.field == f.Name()) {
					ok = true
					why = " [exception: " + e.why + "]"
				}
			}
			c.Check(ok, w.fn, w.in, cnt.in(w.fn, "plain write of atomically accessed field "+f.Name()+why),
				"a field that other goroutines read/modify with sync/atomic is written with a plain store on a shared object: concurrent atomic updates can be lost (e.g. a delete stamp or a count)")
		}
		if nPlain == 0 {
			c.Check(true, nil, nil, "field "+f.Name()+": all writes atomic", "")
		}
	}
	if nf < 8 {
		undecidedf("only %d atomically accessed fields found", nf)
	}
}

// C03.c every CAS outcome is consumed (or is a recognised release / no-op).
func clCASOutcomesConsumed(c *Ctx) {
	p := c.P
	dcas := p.Func("skiplist", "Node", "dcasNext")
	cnt := counter{}
	n := 0
	for _, fn := range p.Funcs {
		pk := fn.Package().Pkg.Path()
		if pk != modPath && pk != modPath+"/skiplist" {
			continue
		}
		fi := p.Info(p.Root(fn))
		for _, in := range p.Own(fn) {
			isCAS := false
			var args []ssa.Value
			if k, _ := atomicOp(in); k == "CAS" {
				isCAS = true
				args = atomicArgs(in)
			} else if p.IsCall(in, dcas) {
				isCAS = true
			}
			if !isCAS {
				continue
			}
			n++
			v, ok := in.(ssa.Value)
			used := ok && len(referrersOf(v)) > 0
			construct := cnt.in(fn, "outcome of "+p.calleeName(in)+" is examined")
			if used {
				c.Check(true, fn, in, construct, "")
				continue
			}
			// recognised idioms
			why := ""
			if len(args) == 3 {
				if strip(args[1]) == strip(args[2]) {
					why = "no-op CAS (old == new): Go write-barrier idiom"
				} else if isConstInt(1)(args[1]) && isConstInt(0)(args[2]) {
					// release of a try-lock this function acquired
					f, _ := addrField(args[0])
					acquired := false
					for _, x := range fi.Instrs {
						if k, on := atomicOnField(x, f); on && k == "CAS" && isConstInt(0)(atomicArgs(x)[1]) && isConstInt(1)(atomicArgs(x)[2]) && fi.Dominates(x, in) {
							acquired = true
						}
					}
					if acquired {
						why = "release of the try-lock acquired above (only the holder executes it)"
					}
				} else if f, _ := addrField(args[0]); f != nil && f.Name() == "session" {
					// swap of the current session under the flush mutex
					lock := p.StdFunc("sync", "Mutex", "Lock")
					held := fi.MustPrecede(in, func(x ssa.Instruction) bool { return p.IsCall(x, lock) })
					if held {
						why = "session swap under the barrier mutex (single flusher)"
					}
				}
			}
			c.Check(why != "", fn, in, construct+map[bool]string{true: " [" + why + "]", false: ""}[why != ""],
				"the result of a compare-and-swap is ignored: the loser of the race proceeds as if it had won (lost update / double effect)")
		}
	}
	if n < 8 {
		undecidedf("only %d CAS sites found", n)
	}
}

package main

import (
	"go/token"
	"go/types"
	"sort"
	"strings"

	"golang.org/x/tools/go/ssa"
)

// ---------------------------------------------------------------------------
// C04.a barrier bracket on every structure access
// ---------------------------------------------------------------------------

// bracketed: the site is executed between an Acquire and the Release of the
// token it returned (Release deferred, or on every path after the site).
func (p *Prog) bracketed(fi *FuncInfo, site ssa.Instruction) bool {
	acq := p.Func("skiplist", "AccessBarrier", "Acquire")
	rel := p.Func("skiplist", "AccessBarrier", "Release")
	for _, a := range p.CallSites(fi.Fn, acq) {
		ac, ok := a.(*ssa.Call)
		if !ok || !fi.Dominates(a, site) {
			continue
		}
		isRel := func(x ssa.Instruction) bool {
			if !p.CallsAny(x, rel) {
				return false
			}
			if _, isGo := x.(*ssa.Go); isGo {
				return false
			}
			args := callOf(x).Args
			return len(args) == 2 && (strip(args[1]) == ssa.Value(ac) || cellHolds(fi, args[1], ac))
		}
		// deferred release registered before the site
		for _, in := range fi.Instrs {
			if d, ok := in.(*ssa.Defer); ok && isRel(d) && fi.Dominates(d, site) {
				return true
			}
		}
		// or an explicit release on every path after the site, and none before
		if fi.MustFollow(site, func(x ssa.Instruction) bool { _, isCall := x.(*ssa.Call); return isCall && isRel(x) }) &&
			fi.PathAvoiding(a, func(x ssa.Instruction) bool { return x == site }, nil) != nil {
			early := false
			for _, in := range fi.Instrs {
				if _, isCall := in.(*ssa.Call); isCall && isRel(in) && fi.Reaches(a, in) && fi.Reaches(in, site) {
					early = true
				}
			}
			if !early {
				return true
			}
		}
	}
	return false
}

func clBarrierBracket(c *Ctx) {
	p := c.P
	getNext := p.Func("skiplist", "Node", "getNext")
	dcas := p.Func("skiplist", "Node", "dcasNext")
	// functions allowed to require a token from their caller (frozen table)
	requires := map[string]string{
		"skiplist.(*Skiplist).Insert4":            "documented raw entry point: caller holds the barrier",
		"skiplist.(*Skiplist).DeleteNode2":        "documented raw entry point: caller holds the barrier",
		"skiplist.(*Skiplist).Lookup":             "documented raw entry point: caller holds the barrier",
		"skiplist.(*Skiplist).GetRangeSplitItems": "documented: explicit barrier and release by the caller",
		"skiplist.(*Node).GetNext":                "raw node accessor: caller holds the barrier",
		"skiplist.(*Skiplist).findPath":           "internal",
		"skiplist.(*Skiplist).helpDelete":         "internal",
		"skiplist.(*Skiplist).softDelete":         "internal",
		"skiplist.(*Skiplist).deleteNode":         "internal",
		"skiplist.(*Node).getNext":                "primitive",
		"skiplist.(*Node).dcasNext":               "primitive",
	}
	// iterator methods run under the session acquired by NewIterator (it.bs)
	iterCovered := func(fn *ssa.Function) bool {
		return strings.HasPrefix(fname(fn), "skiplist.(*Iterator).") || strings.HasPrefix(fname(fn), "skiplist.(*MergeIterator).")
	}
	// 1. needs-token set by propagation over unbracketed call sites
	needs := map[*ssa.Function]bool{getNext: true, dcas: true}
	type usite struct {
		fn *ssa.Function
		in ssa.Instruction
	}
	var uncovered []usite
	covered := 0
	changed := true
	siteSeen := map[ssa.Instruction]bool{}
	for changed {
		changed = false
		for _, fn := range p.Funcs {
			pk := fn.Package().Pkg.Path()
			if pk != modPath && pk != modPath+"/skiplist" {
				continue
			}
			if needs[fn] {
				continue
			}
			fi := p.Info(fn)
			for _, in := range p.Own(fn) {
				if callOf(in) == nil {
					continue
				}
				hit := false
				for _, cal := range p.Callees(in) {
					if needs[cal] {
						hit = true
					}
				}
				if !hit {
					continue
				}
				// non-atomic initialisation of a node nobody can see yet is not an access
				if p.bracketed(fi, in) {
					if !siteSeen[in] {
						siteSeen[in] = true
						covered++
						c.Check(true, fn, in, "structure access "+p.calleeName(in)+" inside Acquire/Release", "")
					}
					continue
				}
				if iterCovered(p.Root(fn)) {
					// propagate: callers of iterator methods are covered by the iterator's own session
					continue
				}
				// a transparent helper is part of the function it was extracted from
				if root := p.Root(fn); root != fn {
					if p.bracketed(p.Info(root), in) {
						continue
					}
					if !needs[root] {
						needs[root] = true
						changed = true
					}
					continue
				}
				if !needs[fn] {
					needs[fn] = true
					changed = true
				}
			}
		}
	}
	// 2. every function that ended up needing a token must be in the frozen table;
	//    anything else is an API that touches nodes without protection
	var names []string
	byName := map[string]*ssa.Function{}
	for fn := range needs {
		names = append(names, fname(fn))
		byName[fname(fn)] = fn
	}
	sort.Strings(names)
	for _, n := range names {
		if _, ok := requires[n]; ok {
			continue
		}
		fn := byName[n]
		// closures inherit from their parent: report the parent-most function
		if fn.Parent() != nil && needs[fn.Parent()] {
			continue
		}
		uncovered = append(uncovered, usite{fn, nil})
		c.Check(false, fn, nil, "function reaches shared skiplist nodes only inside a barrier session",
			"this function follows/changes next-pointers of shared nodes (directly or through "+firstNeedyCallee(p, fn, needs)+") without being inside Acquire/Release and is not one of the documented caller-holds-the-barrier entry points: a concurrently deleted node can be freed under it (use-after-free)")
	}
	_ = uncovered
	// 3. iterators: the only creator of session-less iterators is NewIterator (which acquires)
	ni2 := p.Func("skiplist", "Skiplist", "NewIterator2")
	ni := p.Func("skiplist", "Skiplist", "NewIterator")
	fBs := p.Field("skiplist", "Iterator", "bs")
	acq := p.Func("skiplist", "AccessBarrier", "Acquire")
	for _, s := range p.AllCallSites(ni2) {
		fn := s.Parent()
		pk := fn.Package().Pkg.Path()
		if pk != modPath && pk != modPath+"/skiplist" {
			continue
		}
		ok := p.sameRoot(fn, ni) || p.bracketed(p.Info(fn), s)
		c.Check(ok, fn, s, "session-less iterator created only by NewIterator or inside a bracket", "an iterator without barrier session walks nodes that may be freed under it")
	}
	okAcq := false
	for _, st := range p.storesTo(ni, fBs) {
		if call, ok := strip(st.Val).(*ssa.Call); ok && p.CallsAny(call, acq) {
			okAcq = true
		}
	}
	c.Check(okAcq, ni, nil, "NewIterator acquires a barrier session into the iterator", "iterators created by NewIterator are not protected by a barrier session")
	if covered < 5 {
		undecidedf("only %d bracketed structure accesses found", covered)
	}
}

func firstNeedyCallee(p *Prog, fn *ssa.Function, needs map[*ssa.Function]bool) string {
	for _, in := range p.Info(fn).Instrs {
		if callOf(in) == nil {
			continue
		}
		for _, cal := range p.Callees(in) {
			if needs[cal] {
				return fname(cal) + " at " + p.posOf(in)
			}
		}
	}
	return "?"
}

// C04.b(iii): a node handed out by a lookup that already left its session is
// not dereferenced outside a bracket.
func clNoUseAfterSession(c *Ctx) {
	p := c.P
	getNode := p.Func("nitro", "Writer", "GetNode")
	cnt := counter{}
	n := 0
	for _, s := range p.AllCallSites(getNode) {
		fn := s.Parent()
		pk := fn.Package().Pkg.Path()
		if pk != modPath {
			continue
		}
		call, ok := s.(*ssa.Call)
		if !ok {
			continue
		}
		fi := p.Info(fn)
		var uses []ssa.Instruction
		seen := map[ssa.Value]bool{}
		var walk func(v ssa.Value)
		walk = func(v ssa.Value) {
			if seen[v] {
				return
			}
			seen[v] = true
			for _, r := range referrersOf(v) {
				switch x := r.(type) {
				case *ssa.Phi:
					walk(x)
				case ssa.CallInstruction:
					uses = append(uses, r)
				case *ssa.FieldAddr, *ssa.UnOp:
					uses = append(uses, r)
				}
			}
		}
		walk(call)
		if len(uses) == 0 {
			continue // only returned / compared with nil
		}
		n++
		ok = p.bracketed(fi, s)
		for _, u := range uses {
			if !p.bracketed(fi, u) {
				ok = false
			}
		}
		c.Check(ok, fn, s, cnt.in(fn, "node from GetNode is used inside the barrier session that covers the lookup"),
			"GetNode releases its session before returning; dereferencing the node afterwards races with a concurrent delete+free of the same item (use-after-free)")
	}
	if n == 0 {
		c.Note("no in-module use of a node returned by GetNode")
		c.Check(true, nil, nil, "no in-module dereference of GetNode results", "")
	}
}

// ---------------------------------------------------------------------------
// C04.c free contexts (L3+L11)
// ---------------------------------------------------------------------------

func clFreeContexts(c *Ctx) {
	p := c.P
	freeItem := p.Func("nitro", "Nitro", "freeItem")
	freeNode := p.Func("skiplist", "Skiplist", "FreeNode")
	fFreeNode := p.Field("skiplist", "Skiplist", "freeNode")
	fFreechan := p.Field("nitro", "Nitro", "freechan")
	fWg1 := p.Field("nitro", "Nitro", "shutdownWg1")
	fWg2 := p.Field("nitro", "Nitro", "shutdownWg2")
	fStore := p.Field("nitro", "Nitro", "store")
	wgWait := p.StdFunc("sync", "WaitGroup", "Wait")
	getLink := p.Func("skiplist", "Node", "GetLink")
	nodeItem := p.Func("skiplist", "Node", "Item")
	cnt := counter{}

	// derivesFromChan: v is reached from a value received from freechan by GetLink / Item / phi
	var fromChan func(v ssa.Value, d int) bool
	fromChan = func(v ssa.Value, d int) bool {
		v = strip(v)
		if d > 8 {
			return false
		}
		switch x := v.(type) {
		case *ssa.Extract:
			if u, ok := x.Tuple.(*ssa.UnOp); ok && u.Op == token.ARROW && lastField(u.X) == fFreechan {
				return true
			}
		case *ssa.UnOp:
			if x.Op == token.ARROW && lastField(x.X) == fFreechan {
				return true
			}
		case *ssa.Phi:
			for _, e := range x.Edges {
				if strip(e) != v && fromChan(e, d+1) {
					return true
				}
			}
		case *ssa.Call:
			if p.CallsAny(x, getLink, nodeItem) {
				return fromChan(x.Call.Args[0], d+1)
			}
		}
		return false
	}
	isWaitOn := func(x ssa.Instruction, fv *types.Var) bool {
		if !p.IsCall(x, wgWait) {
			return false
		}
		f, _ := addrField(callOf(x).Args[0])
		return f == fv
	}
	classify := func(fn *ssa.Function, in ssa.Instruction, obj ssa.Value) string {
		fi := p.Info(p.Root(fn))
		// free worker context
		if obj != nil && fromChan(obj, 0) {
			return "free-worker (object arrived through freechan)"
		}
		// shutdown context
		var w1, cl, w2 ssa.Instruction
		for _, x := range fi.Instrs {
			switch {
			case isWaitOn(x, fWg1):
				w1 = x
			case isWaitOn(x, fWg2):
				w2 = x
			case isBuiltin(x, "close") && lastField(callOf(x).Args[0]) == fFreechan:
				cl = x
			}
		}
		if w1 != nil && cl != nil && w2 != nil && fi.Dominates(w1, cl) && fi.Dominates(cl, w2) && fi.Dominates(w2, in) {
			return "shutdown (after GC workers and free workers were drained)"
		}
		return ""
	}
	sites := 0
	for _, fn := range p.Funcs {
		pk := fn.Package().Pkg.Path()
		if pk != modPath && pk != modPath+"/skiplist" {
			continue
		}
		fi := p.Info(fn)
		for _, in := range p.Own(fn) {
			cc := callOf(in)
			if cc == nil {
				continue
			}
			var obj ssa.Value
			what := ""
			switch {
			case p.CallsAny(in, freeItem):
				obj, what = cc.Args[1], "freeItem"
			case p.CallsAny(in, freeNode):
				obj, what = cc.Args[1], "FreeNode"
			case cc.StaticCallee() == nil && !cc.IsInvoke() && lastField(cc.Value) == fFreeNode:
				obj, what = cc.Args[0], "s.freeNode"
			default:
				continue
			}
			sites++
			construct := cnt.in(fn, what+" in an allowed context")
			// wrappers: FreeNode itself forwards to s.freeNode
			if p.sameRoot(fn, freeNode) && what == "s.freeNode" {
				c.Check(strip(obj) == strip(fn.Params[1]), fn, in, construct+" [wrapper]", "")
				continue
			}
			if ctx := classify(fn, in, obj); ctx != "" {
				c.Check(true, fn, in, construct+" ["+ctx+"]", "")
				continue
			}
			// fresh & unpublished: decided by the pairing clauses (Put2, delta restore) – accept when guarded by a failed insert
			if guardedByFailedInsert(p, fi, in, obj) {
				c.Check(true, fn, in, construct+" [rejected insert: object was never published]", "")
				continue
			}
			// allocated here, never published, not handed out afterwards
			if ac, ok := strip(obj).(*ssa.Call); ok && p.CallsAny(ac, p.Func("nitro", "Nitro", "allocItem"), p.Func("nitro", "Nitro", "newItem")) && len(p.publishCallsOf(fn, obj)) == 0 {
				handedOut := false
				for _, ret := range fi.Returns() {
					if !fi.Reaches(in, ret) {
						continue
					}
					for i := range ret.Results {
						if strip(fi.RetVal(ret, i)) == ssa.Value(ac) {
							handedOut = true
						}
					}
				}
				c.Check(!handedOut, fn, in, construct+" [allocated here, never published, not returned afterwards]", "an item is freed and then returned to the caller")
				continue
			}
			// Insert4: dealloc of the caller's node when an equal item exists
			if fname(p.Root(fn)) == "skiplist.(*Skiplist).Insert4" && strip(obj) == strip(fn.Params[1]) {
				okG := fi.Guarded(in, func(v ssa.Value, val bool) bool {
					cmp, ok := cmpOf(v, val)
					return ok && cmp.Op == token.NEQ && (isNilConst(cmp.X) || isNilConst(cmp.Y))
				})
				// and no publish CAS precedes
				dcas := p.Func("skiplist", "Node", "dcasNext")
				pub := false
				for _, d := range p.CallSites(fn, dcas) {
					// only a SUCCESSFUL publishing CAS makes the node reachable
					dv, _ := d.(ssa.Value)
					for _, r := range referrersOf(dv) {
						if ifi, ok := r.(*ssa.If); ok {
							if fi.PathFromBlock(ifi.Block().Succs[0], func(x ssa.Instruction) bool { return x == in }, nil) != nil {
								pub = true
							}
						}
					}
					if len(referrersOf(dv)) == 0 && fi.Reaches(d, in) {
						pub = true
					}
				}
				c.Check(okG && !pub, fn, in, construct+" [node rejected before it was linked]", "the node is freed although it may already be linked")
				continue
			}
			// replaced store's sentinels in LoadFromDisk
			if fname(p.Root(fn)) == "nitro.(*Nitro).LoadFromDisk" {
				recv := strip(cc.Args[0])
				f, _ := loadedField(recv)
				replaced := false
				if f == fStore {
					for _, st := range p.storesTo(fn, fStore) {
						if fi.Dominates(recv.(ssa.Instruction), st) && fi.Dominates(st, in) {
							replaced = true
						}
					}
				}
				hn := p.Func("skiplist", "Skiplist", "HeadNode")
				tn := p.Func("skiplist", "Skiplist", "TailNode")
				sent := false
				if oc, ok := strip(obj).(*ssa.Call); ok && p.CallsAny(oc, hn, tn) && strip(oc.Call.Args[0]) == recv {
					sent = true
				}
				c.Check(replaced && sent, fn, in, construct+" [sentinels of the empty store replaced by the restore]", "LoadFromDisk frees something else than the head/tail of the store it replaces")
				continue
			}
			c.Check(false, fn, in, construct, "memory is returned to the allocator outside the frozen contexts (free worker after the barrier, shutdown after both worker groups were drained, rejected insert, replaced sentinels): a node or item that readers may still reach is freed")
		}
	}
	if sites < 8 {
		undecidedf("only %d free sites found", sites)
	}
	// Close frees every linked node once: item then node, node read before the cursor advances
	clCloseTeardown(c)
	clFreeWorkerOrder(c)
}

func guardedByFailedInsert(p *Prog, fi *FuncInfo, at ssa.Instruction, obj ssa.Value) bool {
	ins := []*ssa.Function{p.Func("skiplist", "Skiplist", "Insert2"), p.Func("skiplist", "Skiplist", "Insert3")}
	for _, s := range p.CallSites(fi.Fn, ins...) {
		call, ok := s.(*ssa.Call)
		if !ok || strip(call.Call.Args[1]) != strip(obj) {
			continue
		}
		for _, r := range referrersOf(call) {
			if e, ok := r.(*ssa.Extract); ok && e.Index == 1 && fi.guardedByValue(at, e, false) {
				return true
			}
		}
	}
	return false
}

// C07.c Close teardown order.
func clCloseTeardown(c *Ctx) {
	p := c.P
	fn := p.Func("nitro", "Nitro", "Close")
	fi := p.Info(fn)
	fRun := p.Field("nitro", "Nitro", "isGCRunning")
	fGcchan := p.Field("nitro", "Nitro", "gcchan")
	fFreechan := p.Field("nitro", "Nitro", "freechan")
	fWg1 := p.Field("nitro", "Nitro", "shutdownWg1")
	fWg2 := p.Field("nitro", "Nitro", "shutdownWg2")
	wgWait := p.StdFunc("sync", "WaitGroup", "Wait")
	freeItem := p.Func("nitro", "Nitro", "freeItem")
	freeNode := p.Func("skiplist", "Skiplist", "FreeNode")
	itNext := p.Func("skiplist", "Iterator", "Next")
	itGetNode := p.Func("skiplist", "Iterator", "GetNode")
	hn := p.Func("skiplist", "Skiplist", "HeadNode")
	tn := p.Func("skiplist", "Skiplist", "TailNode")
	var acqGC, clGc, w1, clFree, w2 ssa.Instruction
	for _, in := range fi.Instrs {
		if k, on := atomicOnField(in, fRun); on && k == "CAS" {
			acqGC = in
		}
		if isBuiltin(in, "close") {
			switch lastField(callOf(in).Args[0]) {
			case fGcchan:
				clGc = in
			case fFreechan:
				clFree = in
			}
		}
		if p.IsCall(in, wgWait) {
			f, _ := addrField(callOf(in).Args[0])
			if f == fWg1 {
				w1 = in
			} else if f == fWg2 {
				w2 = in
			}
		}
	}
	if !c.Check(acqGC != nil && clGc != nil && w1 != nil && clFree != nil && w2 != nil, fn, nil, "Close: GC ownership, close(gcchan), wait GC workers, close(freechan), wait free workers",
		"the shutdown sequence is incomplete") {
		return
	}
	okGC := fi.Guarded(clGc, func(v ssa.Value, val bool) bool { return val && fi.resolveCell(v) == acqGC.(ssa.Value) })
	c.Check(okGC, fn, clGc, "gcchan closed only while holding the collector flag", "a collector running concurrently with Close can send on the closed channel (panic)")
	c.Check(fi.Dominates(clGc, w1) && fi.Dominates(w1, clFree) && fi.Dominates(clFree, w2), fn, clFree, "order: close(gcchan) < Wait(GC workers) < close(freechan) < Wait(free workers)",
		"freechan is closed while GC workers may still flush sessions whose destructor sends on it (panic), or nodes are freed by Close while workers still run")
	// manual sweep
	var itemFrees, nodeFrees []ssa.Instruction
	for _, in := range fi.Instrs {
		if p.IsCall(in, freeItem) {
			itemFrees = append(itemFrees, in)
		}
		if p.IsCall(in, freeNode) {
			nodeFrees = append(nodeFrees, in)
		}
	}
	for _, f := range append(append([]ssa.Instruction{}, itemFrees...), nodeFrees...) {
		c.Check(fi.Dominates(w2, f), fn, f, "sweep free happens after both worker groups were drained", "Close frees memory while free/GC workers may still touch it")
	}
	// the sweep exists: a cursor positioned at the first node, every linked node and its item freed in a loop
	seekFirst := p.Func("skiplist", "Iterator", "SeekFirst")
	itValid := p.Func("skiplist", "Iterator", "Valid")
	sweepNode, sweepItem := false, false
	for _, f := range nodeFrees {
		if _, isPhi := strip(callOf(f).Args[1]).(*ssa.Phi); isPhi && fi.inLoop(f) {
			sweepNode = true
		}
	}
	for _, f := range itemFrees {
		if fi.inLoop(f) {
			sweepItem = true
		}
	}
	sf := p.CallSites(fn, seekFirst)
	okStart := len(sf) >= 1
	for _, f := range append(append([]ssa.Instruction{}, itemFrees...), nodeFrees...) {
		if fi.inLoop(f) && (len(sf) == 0 || !fi.Dominates(sf[0], f)) {
			okStart = false
		}
	}
	c.Check(sweepNode && sweepItem && okStart, fn, nil, "Close sweeps every node still linked: cursor positioned at the first node, item and node freed per node",
		"Close no longer frees the nodes (and items) that are still linked in the store: every live item leaks")
	// the node handed to the sweep comes from the cursor while it is valid
	for _, f := range nodeFrees {
		ph, ok := strip(callOf(f).Args[1]).(*ssa.Phi)
		if !ok {
			continue
		}
		fromCursor := 0
		for _, e := range ph.Edges {
			if gn, isCall := strip(e).(*ssa.Call); isCall && p.CallsAny(gn, itGetNode) {
				fromCursor++
				c.Check(fi.guardedByCall(gn, true, itValid), fn, gn, "sweep takes a node from the cursor only while the cursor is valid", "the tail sentinel is swept as an item node (freed twice)")
			}
		}
		c.Check(fromCursor >= 2, fn, f, "sweep is fed by the cursor before and inside the loop", "the sweep loop is not advanced by the cursor: it frees at most one node or never terminates")
	}
	// sentinels freed exactly once each
	heads, tails := 0, 0
	for _, f := range nodeFrees {
		if oc, ok := strip(callOf(f).Args[1]).(*ssa.Call); ok {
			if p.CallsAny(oc, hn) {
				heads++
				c.Check(!fi.inLoop(f), fn, f, "head sentinel freed once", "")
			}
			if p.CallsAny(oc, tn) {
				tails++
				c.Check(!fi.inLoop(f), fn, f, "tail sentinel freed once", "")
			}
		}
	}
	c.Check(heads == 1 && tails == 1, fn, nil, "Close frees the head and the tail sentinel exactly once", "a sentinel is leaked or freed twice")
	// linked nodes: the node freed in the loop was read BEFORE the cursor advanced past it
	for _, f := range nodeFrees {
		ph, ok := strip(callOf(f).Args[1]).(*ssa.Phi)
		if !ok {
			continue
		}
		okLast := true
		for _, e := range ph.Edges {
			e = strip(e)
			if isNilConst(e) {
				continue
			}
			gn, isCall := e.(*ssa.Call)
			if !isCall || !p.CallsAny(gn, itGetNode) {
				if _, isPhi := e.(*ssa.Phi); isPhi {
					continue
				}
				okLast = false
				continue
			}
			// the iterator advances only after that read
			adv := false
			for _, nx := range p.CallSites(fn, itNext) {
				if fi.Dominates(gn, nx) && nx.Block() == gn.Block() {
					adv = true
				}
			}
			if !adv {
				okLast = false
			}
		}
		c.Check(okLast, fn, f, "sweep frees the node it read before advancing the cursor (lastNode idiom)", "the sweep frees the node the cursor still stands on and then follows its next pointer (use-after-free), or skips nodes")
		// item of the same node freed too, before the node
		okItem := false
		for _, fi2 := range itemFrees {
			if it, ok := strip(callOf(fi2).Args[1]).(*ssa.Call); ok && p.CallsAny(it, p.Func("skiplist", "Node", "Item")) && strip(it.Call.Args[0]) == ssa.Value(ph) && fi.Dominates(fi2, f) {
				okItem = true
			}
		}
		c.Check(okItem, fn, f, "sweep frees the node's item before the node", "items of linked nodes are leaked, or the item pointer is read from a freed node")
	}
}

// free worker: everything that is read from a node (its link, its item) is read
// before the node is freed
func clFreeWorkerOrder(c *Ctx) {
	p := c.P
	fn := p.Func("nitro", "Nitro", "freeWorker")
	fi := p.Info(fn)
	freeNode := p.Func("skiplist", "Skiplist", "FreeNode")
	freeItem := p.Func("nitro", "Nitro", "freeItem")
	getLink := p.Func("skiplist", "Node", "GetLink")
	nodeItem := p.Func("skiplist", "Node", "Item")
	frees := p.CallSites(fn, freeNode)
	if len(frees) == 0 {
		undecidedf("freeWorker: FreeNode call not found")
	}
	for _, fr := range frees {
		node := strip(callOf(fr).Args[1])
		h := loopHeaderOf(fr.Block())
		stale := fi.PathAvoiding(fr, func(x ssa.Instruction) bool {
			if !p.IsCall(x, getLink, nodeItem) {
				return false
			}
			return strip(callOf(x).Args[0]) == node
		}, func(x ssa.Instruction) bool { return h != nil && x.Block() == h })
		c.Check(stale == nil, fn, fr, "free worker reads a node's link and item before it frees the node", "the free worker follows GetLink()/Item() of a node it has just returned to the allocator (use-after-free; with a reusing allocator it walks into foreign memory)")
		// the item of the node is freed too, before the node
		okItem := false
		for _, fi2 := range p.CallSites(fn, freeItem) {
			if it, ok := strip(callOf(fi2).Args[1]).(*ssa.Call); ok && p.CallsAny(it, nodeItem) && strip(it.Call.Args[0]) == node && fi.Dominates(fi2, fr) {
				okItem = true
			}
		}
		c.Check(okItem, fn, fr, "free worker frees the node's item before the node", "items of reclaimed nodes are leaked, or read from a freed node")
	}
	// every node of the received list is freed: the cursor advances by GetLink of the node being freed
	c.Check(len(p.CallSites(fn, getLink)) >= 1, fn, nil, "free worker walks the whole list it received", "only the first node of a reclaimed list is freed")
}

// C04.d who may feed the free workers
func clFreeFeed(c *Ctx) {
	p := c.P
	fFreechan := p.Field("nitro", "Nitro", "freechan")
	fCallb := p.Field("skiplist", "AccessBarrier", "callb")
	destr := p.Func("nitro", "Nitro", "newBSDestructor")
	doCleanup := p.Func("skiplist", "AccessBarrier", "doCleanup")
	closeFn := p.Func("nitro", "Nitro", "Close")
	destructors := p.funcsReturnedBy(destr)
	isDestr := func(f *ssa.Function) bool {
		for _, d := range destructors {
			if p.sameRoot(f, d) {
				return true
			}
		}
		return false
	}
	for _, s := range p.sendsOn(fFreechan) {
		c.Check(isDestr(s.Parent()), s.Parent(), s, "send on freechan only by the barrier session destructor", "nodes are queued for freeing without passing the access barrier: they can be freed while accessors still hold them")
	}
	for _, cl := range p.closesOf(fFreechan) {
		c.Check(p.sameRoot(cl.Parent(), closeFn), cl.Parent(), cl, "close(freechan) only by Close", "")
	}
	n := 0
	for _, fn := range p.Funcs {
		for _, in := range p.Own(fn) {
			cc := callOf(in)
			if cc == nil || cc.StaticCallee() != nil || cc.IsInvoke() {
				continue
			}
			if lastField(cc.Value) == fCallb {
				n++
				c.Check(p.sameRoot(fn, doCleanup), fn, in, "destructor callback invoked only by doCleanup", "the destructor runs outside the ordered cleanup: sessions are destructed out of order or twice")
			}
		}
	}
	if n == 0 {
		undecidedf("no call of AccessBarrier.callb found")
	}
	// the destructor forwards exactly the non-nil reference it was given, always
	if len(destructors) == 0 {
		undecidedf("newBSDestructor: the destructor function it returns could not be resolved")
	}
	for _, a := range destructors {
		afi := p.Info(a)
		var send ssa.Instruction
		for _, in := range afi.Instrs {
			if s, ok := in.(*ssa.Send); ok {
				send = in
				c.Check(strip(s.X) == strip(a.Params[len(a.Params)-1]) && afi.guardedByCmp(in, token.NEQ, isValue(a.Params[len(a.Params)-1]), isNilConst), a, in, "destructor forwards its (non-nil) object reference", "")
			}
		}
		if send == nil {
			c.Check(false, a, nil, "destructor forwards every non-nil object reference to the free workers", "unlinked nodes attached to a terminated session are never freed")
			continue
		}
		// every path to a return either passes the send or takes the (ref == nil) edge
		okAll := afi.PathAvoidingEdges(nil, isReturn, func(x ssa.Instruction) bool { return x == send },
			afi.edgeWhere(token.EQL, isValue(a.Params[len(a.Params)-1]), isNilConst)) == nil
		c.Check(okAll, a, send, "destructor forwards every non-nil object reference to the free workers",
			"on some path a terminated session's node list is dropped instead of being handed to the free workers: the barrier reports the session destructed, but its unlinked nodes and items are never freed (Close only sweeps linked nodes)")
	}
}

// C04.e an insert overtaken by a delete stops linking upper levels.
func clInsertStopsWhenMarked(c *Ctx) {
	p := c.P
	fn := p.Func("skiplist", "Skiplist", "Insert4")
	fi := p.Info(fn)
	dcas := p.Func("skiplist", "Node", "dcasNext")
	getNext := p.Func("skiplist", "Node", "getNext")
	x := strip(fn.Params[1])
	n := 0
	for _, d := range p.CallSites(fn, dcas) {
		args := callOf(d).Args
		if strip(args[0]) == x || strip(args[3]) != x {
			continue // not a link of the new node into a predecessor
		}
		if isConstInt(0)(args[1]) {
			continue // the publishing CAS at level 0
		}
		n++
		ok := fi.Guarded(d, func(v ssa.Value, val bool) bool {
			if val {
				return false
			}
			e, isE := v.(*ssa.Extract)
			if !isE || e.Index != 1 {
				return false
			}
			gn, isCall := e.Tuple.(*ssa.Call)
			return isCall && p.CallsAny(gn, getNext) && strip(gn.Call.Args[0]) == x && strip(gn.Call.Args[1]) == strip(args[1])
		})
		c.Check(ok, fn, d, "upper-level link of the new node only while the node is not marked at that level",
			"an insert that was overtaken by a delete of the same node keeps linking it at upper levels: the node is re-linked after the deleter unlinked it and is freed while reachable")
	}
	if n == 0 {
		undecidedf("Insert4: no upper-level link CAS found")
	}
	// the new node's own successor at that level is (re)synchronised with the
	// successor the predecessor is expected to have, before it is linked in
	for _, d := range p.CallSites(fn, dcas) {
		args := callOf(d).Args
		if strip(args[0]) == x || strip(args[3]) != x || isConstInt(0)(args[1]) {
			continue
		}
		next := strip(args[2])
		// the examination of x's own pointer in this iteration
		var gn *ssa.Call
		for _, g := range p.CallSites(fn, getNext) {
			gc := g.(*ssa.Call)
			if strip(gc.Call.Args[0]) == x && strip(gc.Call.Args[1]) == strip(args[1]) && fi.Dominates(g, d) {
				gn = gc
			}
		}
		if gn == nil {
			c.Check(false, fn, d, "new node's own successor is examined before each upper-level link", "the insert links the node at a level without looking at its own pointer at that level")
			continue
		}
		var own ssa.Value
		for _, r := range referrersOf(gn) {
			if e, ok := r.(*ssa.Extract); ok && e.Index == 0 {
				own = e
			}
		}
		var selfCAS ssa.Value
		for _, s2 := range p.CallSites(fn, dcas) {
			a2 := callOf(s2).Args
			if strip(a2[0]) == x && own != nil && strip(a2[2]) == own && strip(a2[3]) == next {
				selfCAS = s2.(ssa.Value)
			}
		}
		same := fi.edgeWhere(token.EQL, func(v ssa.Value) bool { return own != nil && strip(v) == own }, isValue(next))
		synced := func(pb, sb *ssa.BasicBlock) bool {
			if same(pb, sb) {
				return true
			}
			if selfCAS == nil || len(pb.Instrs) == 0 {
				return false
			}
			ifi, ok := pb.Instrs[len(pb.Instrs)-1].(*ssa.If)
			if !ok || len(pb.Succs) != 2 {
				return false
			}
			f := normFact(ifi.Cond, pb.Succs[0] == sb)
			return f.V == selfCAS && f.Val
		}
		stale := fi.PathAvoidingEdges(gn, func(y ssa.Instruction) bool { return y == d }, nil, synced)
		c.Check(stale == nil, fn, d, "new node points at the successor its predecessor is expected to have before it is linked at an upper level",
			"after a failed upper-level CAS the path is recomputed, but the node's own next pointer at that level still names the OLD successor: a node inserted in between at that level becomes unreachable there (the level is no longer a sub-sequence of the level below)")
	}
}

// Every cursor opened on the (memory managed) item store inside the module is
// closed on every path, or becomes the cursor of a snapshot iterator: an
// unreleased barrier session blocks reclamation of every later session.
func clStoreCursorsClosed(c *Ctx) {
	p := c.P
	newIt := p.Func("skiplist", "Skiplist", "NewIterator")
	itClose := p.Func("skiplist", "Iterator", "Close")
	fIter := p.Field("nitro", "Iterator", "iter")
	cnt := counter{}
	n := 0
	for _, s := range p.AllCallSites(newIt) {
		fn := s.Parent()
		if fn.Package().Pkg.Path() != modPath {
			continue
		}
		call, ok := s.(*ssa.Call)
		if !ok || p.listFamily(call.Call.Args[0], 0) != "field:store" {
			continue
		}
		// handed to a snapshot iterator?
		kept := false
		for _, r := range referrersOf(call) {
			if st, ok := r.(*ssa.Store); ok {
				if f, _ := addrField(st.Addr); f == fIter {
					kept = true
				}
			}
		}
		if kept {
			// handed to a snapshot iterator: every path that does not return that iterator must close the cursor
			kfi := p.Info(p.Root(fn))
			n++
			leak := kfi.PathAvoiding(s, func(x ssa.Instruction) bool {
				r, isR := x.(*ssa.Return)
				if !isR || r.Block() == fn.Recover {
					return false
				}
				for i := range r.Results {
					if isNilConst(kfi.RetVal(r, i)) {
						return true
					}
				}
				return len(r.Results) == 0 && false
			}, func(x ssa.Instruction) bool {
				cc := callOf(x)
				return cc != nil && p.CallsAny(x, itClose) && strip(cc.Args[0]) == ssa.Value(call)
			})
			c.Check(leak == nil, fn, s, cnt.in(fn, "a cursor opened for a snapshot iterator is closed when no iterator is handed out"),
				"the store cursor (and its barrier session) is opened before the snapshot reference is known to be available and is leaked when it is not: that session never terminates and reclamation stops for ever")
			// ... and on every path it is either installed in the iterator or closed
			dropped := kfi.PathAvoiding(s, func(x ssa.Instruction) bool {
				r, isR := x.(*ssa.Return)
				return isR && r.Block() != fn.Recover
			}, func(x ssa.Instruction) bool {
				if st, ok := x.(*ssa.Store); ok && strip(st.Val) == ssa.Value(call) {
					if f, _ := addrField(st.Addr); f == fIter {
						return true
					}
				}
				cc := callOf(x)
				return cc != nil && p.CallsAny(x, itClose) && strip(cc.Args[0]) == ssa.Value(call)
			})
			c.Check(dropped == nil, fn, s, cnt.in(fn, "a cursor opened for a snapshot iterator is installed or closed on every path"),
				"on some path the freshly opened cursor is neither kept nor closed: its barrier session is never released, so that session and every later one are never destructed")
			continue
		}
		n++
		fi := p.Info(p.Root(fn))
		isClose := func(x ssa.Instruction) bool {
			if _, isGo := x.(*ssa.Go); isGo {
				return false
			}
			cc := callOf(x)
			return cc != nil && p.CallsAny(x, itClose) && (strip(cc.Args[0]) == ssa.Value(call) || cellHolds(fi, cc.Args[0], call))
		}
		leak := fi.PathAvoiding(s, isReturn, isClose)
		c.Check(leak == nil, fn, s, cnt.in(fn, "cursor on the item store is closed on every path"),
			"a cursor on the item store keeps its barrier session for ever: no session closed after it can be destructed, so unlinked nodes are never freed again")
	}
	if n == 0 {
		c.Note("no plain cursor on the item store outside snapshot iterators")
	}
}

// Worker goroutines signal their WaitGroup on every exit; Close waits for them.
func clWorkersSignalDone(c *Ctx) {
	p := c.P
	wgDone := p.StdFunc("sync", "WaitGroup", "Done")
	wgAdd := p.StdFunc("sync", "WaitGroup", "Add")
	nw := p.Func("nitro", "Nitro", "NewWriter")
	fWg1 := p.Field("nitro", "Nitro", "shutdownWg1")
	fWg2 := p.Field("nitro", "Nitro", "shutdownWg2")
	fi := p.Info(nw)
	for _, e := range []struct {
		fv     *types.Var
		worker *ssa.Function
	}{{fWg1, p.Func("nitro", "Nitro", "collectionWorker")}, {fWg2, p.Func("nitro", "Nitro", "freeWorker")}} {
		// NewWriter: Add(1) on the group before the worker is started
		var add, start ssa.Instruction
		for _, in := range fi.Instrs {
			if p.IsCall(in, wgAdd) {
				if f, _ := addrField(callOf(in).Args[0]); f == e.fv {
					add = in
				}
			}
			if g, ok := in.(*ssa.Go); ok && g.Call.StaticCallee() == e.worker {
				start = in
			}
		}
		c.Check(add != nil && start != nil && fi.Dominates(add, start), nw, start, "worker "+e.worker.Name()+" is registered in its shutdown group before it starts", "Close does not wait for this worker")
		wfi := p.Info(e.worker)
		done := false
		for _, in := range wfi.Instrs {
			if d, ok := in.(*ssa.Defer); ok && p.CallsAny(d, wgDone) {
				if f, _ := addrField(d.Call.Args[0]); f == e.fv {
					all := true
					for _, r := range wfi.Returns() {
						if !wfi.Dominates(d, r) {
							all = false
						}
					}
					done = all
				}
			}
		}
		if !done {
			done = wfi.PathAvoiding(nil, isReturn, func(x ssa.Instruction) bool {
				if !p.IsCall(x, wgDone) {
					return false
				}
				f, _ := addrField(callOf(x).Args[0])
				return f == e.fv
			}) == nil
		}
		c.Check(done, e.worker, nil, "worker "+e.worker.Name()+" signals its shutdown group on every exit", "Close blocks for ever waiting for this worker (or returns while it still runs)")
	}
}

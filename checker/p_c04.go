package main

func init() {
	register(&PropCheck{
		ID: "C04",
		Explanation: "Use-after-free over all schedules is NOT decided; decided is the lexical discipline that makes the epoch scheme sound, on all paths and call sites: (a) every function that follows or changes next-pointers of shared nodes does so inside Acquire/Release (deferred or post-dominating), inside an iterator that holds a session, or is one of the frozen caller-holds-the-barrier entry points whose in-module call sites are themselves bracketed (propagated over the call graph); " +
			"(b) no dereference after the protecting session ended: Refresh re-seeks with a copy made before the old cursor closes; the skiplist iterator acquires before it re-seeks before it releases; a node returned by GetNode is used only inside a bracket covering the lookup; " +
			"(c) memory is freed only in the frozen contexts (free worker from freechan, shutdown after both worker groups were drained in order, rejected-and-never-published objects, replaced sentinels) and Close's sweep follows the lastNode idiom; " +
			"(d) sessions carry nodes only after they were unlinked, only the destructor feeds freechan, only doCleanup calls the destructor; (e) an insert overtaken by a delete stops linking; (f) only the winning deleter flushes. " +
			"NOT decided: correctness of the barrier algorithm itself (C16/C17), memory-model effects, user code holding nodes past an iterator step.",
		Assumptions: []string{"the Go-heap lists (snapshots, gcsnapshots, dbInstances, freeq) need no barrier (inactive barrier)"},
		Run: func(c *Ctx) {
			c.Do("C04.a", "L2+callgraph barrier bracket", 6, func() { clBarrierBracket(c); clStoreCursorsClosed(c) })
			c.Do("C04.b", "L11 no dereference after the session ended", 6, func() { clRefreshCopies(c); clSkiplistRefreshOrder(c); clNoUseAfterSession(c); clVisitorPivotCopies(c) })
			c.Do("C04.c", "L3+L11 free contexts", 15, func() { clFreeContexts(c) })
			c.Do("C04.d", "L2+L3 retire after unlink, single producer", 6, func() { clCollectionWorker(c, "C04.d"); clFreeFeed(c) })
			c.Do("C04.e", "L1 overtaken insert stops linking", 1, func() { clInsertStopsWhenMarked(c) })
			c.Do("C04.f", "L1+L5 winner-only flush, exactly one winner", 10, func() {
				clDeleteNodeWinner(c)
				clSoftDeleteTable(c)
				clComparatorRoles(c, map[string]bool{"field:store": true})
			})
		},
	})
}

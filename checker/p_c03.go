package main

func init() {
	register(&PropCheck{
		ID: "C03",
		Explanation: "Linearizability over all interleavings is NOT decided (it needs a model checker or proof). Decided necessary conditions: (a) every effect of Writer.DeleteNode that other goroutines can observe (garbage-list link and ends, session flush, count) is dominated by the win test of its branch (deadSn CAS / physical delete), the CAS is 0 -> current epoch, and the physical/logical selector is bornSn == current epoch; " +
			"(b) atomic-write discipline: no field accessed through sync/atomic anywhere is written plainly on a shared object (frozen, reasoned exceptions); (c) the outcome of every compare-and-swap in packages nitro and skiplist reaches a branch/return, except recognised release/no-op idioms; " +
			"plus the lock-free skiplist's local obligations (publish before index, marking CAS, single winner, search restarts) shared with C13.",
		Assumptions: []string{"plain reads of 32-bit epoch stamps are tolerated (aligned loads do not tear on the supported targets); this is a data race in the Go memory model that the check does not adjudicate"},
		Run: func(c *Ctx) {
			c.Do("C03.a", "L1 winner-only side effects", 9, func() { clDeleteNodeWinner(c); clComparatorRoles(c, map[string]bool{"field:store": true}) })
			c.Do("C03.b", "L10 atomic-write discipline", 10, func() { clAtomicWriteDiscipline(c) })
			c.Do("C03.c", "L6 CAS outcomes consumed", 8, func() { clCASOutcomesConsumed(c) })
			c.Do("C03.d", "L2+L5 skiplist local obligations (shared with C13)", 12, func() {
				clInsertPublish(c)
				clMarkCAS(c)
				clSoftDeleteTable(c)
				clFindPathHelps(c)
				clInsertStopsWhenMarked(c)
			})
		},
	})
}

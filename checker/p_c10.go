package main

func init() {
	register(&PropCheck{
		ID: "C10",
		Explanation: "Decides structural necessary conditions of exactly-once, ordered, partitioned delivery: (a) a shard starts by a key-only seek to pivot i and its end test against pivot i+1 uses the same key-only comparator, and (decision table over the comparator's sign) delivers exactly the items strictly below the end pivot; " +
			"(b) callback errors are recorded per shard and returned after all workers finished, workers signal completion on every exit, Visitor waits on every path; (c) the work channel cannot block the producer (buffered by the shard count; if unbuffered, no early worker exit) and is closed before the wait; " +
			"(d) every shard iterator takes and releases its own snapshot reference and barrier session, and ends every cursor move on a visible item. " +
			"NOT decided: that pivots are increasing in value (the filter compares values), evenness of the partition, exact-once as such.",
		Assumptions: []string{"GetRangeSplitItems returns at most nways-1 pivots (structural argument recorded in the notes, with its gap for nways=1)"},
		Run: func(c *Ctx) {
			c.Do("C10.a", "L4+L5 shard boundary comparators agree", 4, func() {
				clVisitorBoundary(c)
				clVisitorShardStart(c)
				clComparatorRoles(c, map[string]bool{"field:store": true})
			})
			c.Do("C10.b", "L6c errors collected and returned", 5, func() { clVisitorErrors(c) })
			c.Do("C10.c", "L10 termination shape", 2, func() { clVisitorTermination(c) })
			c.Do("C10.d", "L2 per-shard iterator pairing and filtering", 8, func() {
				clIteratorRefPairing(c)
				clCursorMovesFiltered(c)
				clRefreshOnlyOnVisible(c)
				clVisitorPivotCopies(c)
				clSkiplistNextAdvancesOnce(c)
			})
		},
	})
}

package main

func init() {
	register(&PropCheck{
		ID: "C01",
		Explanation: "Decides structural necessary conditions of snapshot isolation on every path of the resolved program: " +
			"(a) the visibility predicate of the snapshot iterator and of the delta logger equal the reference table born<=sn && (dead==0||dead>sn) on all orderings of the three epochs; " +
			"(b) garbage of snapshot n is handed to the collectors only under the in-order guard sn == lastGCSn+1, by the single collector; " +
			"(c) published items are immutable: every write to an item header or payload targets an item that is fresh in that function, the only exception being the 0->currSn CAS on deadSn; " +
			"(d) NewSnapshot captures the epoch before incrementing it and after merging the writers; (f) the per-writer item delta that Count() is built from changes only with the outcome of the operation (successful insert +1, successful delete -1) and is merged once per snapshot; (e) the scan APIs (iterator moves, refresh, visitor shard boundaries) end every cursor move on a visible item and partition by one key-only order. " +
			"NOT decided: that the skiplist keeps (key,bornSn) order under concurrency, schedules, the behaviour as a whole.",
		Assumptions: []string{"go/ssa faithfully represents the source", "user key comparators and io.Writers do not modify the byte slices they are given"},
		Run: func(c *Ctx) {
			c.Do("C01.a", "L5 visibility decision table", 4, func() { clVisibilityTable(c); clDeltaPredicateTable(c); clItemComparatorTables(c) })
			c.Do("C01.b", "L1+L3 in-order collection guard", 5, func() { clCollectorGuard(c); clDeltaHandshakeOrder(c); clStoreToDiskSnapRef(c) })
			c.Do("C01.c", "L11+L3 published items are immutable", 8, func() { clItemImmutable(c); clAllocItemInitialises(c) })
			c.Do("C01.d", "L2 epoch capture", 7, func() { clEpochCapture(c) })
			c.Do("C01.f", "L1+L2 Count() bookkeeping follows the outcome of each operation", 15, func() {
				clPut2Pairing(c)
				clDeleteNodeWinner(c)
				clStitch(c)
			})
			c.Do("C01.e", "L2+L4 scan APIs deliver each visible item once", 8, func() {
				clCursorMovesFiltered(c)
				clRefreshOnlyOnVisible(c)
				clVisitorBoundary(c)
				clSkiplistNextAdvancesOnce(c)
				clFindPathRecordsEachLevel(c)
			})
		},
	})
}

package main

func init() {
	register(&PropCheck{
		ID: "C13",
		Explanation: "Linearizability of the lock-free skiplist over all interleavings is NOT decided (model checking / proof territory). Decided are the algorithm's local obligations, each a necessary condition whose violation yields a two- or three-thread counter-example: " +
			"(a) publish before index: upper levels are linked and success is reported only after the level-0 CAS succeeded; a failed publish re-searches AND re-checks for an equal item; (b) the marking CAS keeps the successor and only sets the mark, the unlink CAS swings prev from the marked node to its successor; " +
			"(c) exactly one deleter wins: softDelete is evaluated as a decision table over per-level CAS outcomes (success <=> own level-0 mark, all levels end marked, softDeletes +1 for the winner only); deleteNode/Delete report what it decided; (d) the search compares and records only unmarked nodes, unlinks only marked ones and restarts from the head after a failed unlink; " +
			"(e) the list height is raised only by the CAS in NewLevel whose result table is evaluated (<= installed height, <= MaxLevel); (f) the three tagged-word accessors agree on address formula, shift, mark and atomics — in both build configurations (amd64 and the !amd64 node.go that the baseline never compiles).",
		Assumptions: []string{"sync/atomic operations are linearizable", "48-bit user-space addresses (the amd64 tag byte)"},
		Run: func(c *Ctx) {
			c.Do("C13.a", "L2 publish before index", 6, func() { clInsertPublish(c); clInsertStopsWhenMarked(c); clTowerLinkedToTop(c) })
			c.Do("C13.b", "L4 mark never changes the successor", 2, func() { clMarkCAS(c) })
			c.Do("C13.c", "L5+L1 exactly one deleter wins", 4, func() { clSoftDeleteTable(c) })
			c.Do("C13.d", "L1+L2 search helps and restarts", 6, func() { clFindPathHelps(c) })
			c.Do("C13.e", "L5+L3 level growth by CAS", 2, func() { clLevelGrowth(c); clCASOutcomesConsumed(c) })
			c.Do("C13.f", "L9 tagged-word accessors agree", 5, func() { clAccessorAgreement(c) })
		},
		RunB: func(c *Ctx) {
			c.Do("C13.f", "L9 tagged-word accessors agree", 5, func() { clAccessorAgreement(c) })
			c.Do("C13.b", "L4 mark never changes the successor", 2, func() { clMarkCAS(c) })
		},
	})
}

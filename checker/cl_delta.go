package main

import (
	"go/token"
	"go/types"

	"golang.org/x/tools/go/ssa"
)

// C05.a (StoreToDisk half): delta logging is switched on before the backup
// snapshot is released, switched off on every exit afterwards, and the delta
// writers are closed only after the terminate handshake.
func clDeltaHandshakeOrder(c *Ctx) {
	p := c.P
	fn := p.Func("nitro", "Nitro", "StoreToDisk")
	fi := p.Info(fn)
	hs := p.Func("nitro", "Nitro", "changeDeltaWrState")
	snapClose := p.Func("nitro", "Snapshot", "Close")
	initS, _ := constantInt64(p.Const("nitro", "dwStateInit"))
	termS, _ := constantInt64(p.Const("nitro", "dwStateTerminate"))
	var initCall ssa.Instruction
	for _, s := range p.CallSites(fn, hs) {
		if isConstInt(initS)(callOf(s).Args[1]) {
			initCall = s
		}
	}
	if !c.Check(initCall != nil, fn, nil, "delta mode performs the init handshake with the GC workers", "delta interleaving no longer activates logging in the GC workers") {
		return
	}
	// explicit early release of the snapshot only after a successful init
	ev, _ := errResult(initCall)
	for _, s := range p.CallSites(fn, snapClose) {
		if _, ok := s.(*ssa.Call); !ok {
			continue
		}
		ok := fi.Guarded(s, func(v ssa.Value, val bool) bool {
			cmp, isC := cmpOf(v, val)
			if !isC || cmp.Op != token.EQL {
				return false
			}
			x := cmp.X
			if isNilConst(x) {
				x = cmp.Y
			}
			return fi.resolveCell(x) == ev || x == ev
		})
		c.Check(ok, fn, s, "backup snapshot released only after logging is active in every GC worker",
			"the snapshot is released before (or without) a successful init handshake: the collector may unlink items visible to the backup before their removal is logged, and the backup misses them")
	}
	// the horizon handed to the GC workers is the number of the snapshot being stored
	fCtxSn := p.Field("nitro", "deltaWrContext", "sn")
	fSnapSn := p.Field("nitro", "Snapshot", "sn")
	nsn := 0
	for _, w := range p.fieldWrites(fCtxSn) {
		nsn++
		f, base := loadedField(w.val)
		okv := f == fSnapSn
		if okv {
			// the snapshot is a parameter of the handshake function, bound to StoreToDisk's snapshot at the call
			prm, isP := strip(base).(*ssa.Parameter)
			okv = isP
			if isP {
				for i, pp := range w.fn.Params {
					if pp == prm {
						for _, cs := range p.CallSites(fn, w.fn) {
							if isConstInt(initS)(callOf(cs).Args[1]) {
								a := strip(callOf(cs).Args[i])
								if fi.resolveCell(a) != strip(fn.Params[2]) && a != strip(fn.Params[2]) && !cellHolds(fi, a, fn.Params[2]) {
									okv = false
								}
							}
						}
					}
				}
			}
		}
		c.Check(okv, w.fn, w.in, "delta log horizon = number of the snapshot being stored",
			"the GC workers judge 'visible to the backup' against another snapshot than the one being stored: when an older snapshot is backed up, items it sees are collected without being logged and are missing after restore")
	}
	if nsn == 0 {
		c.Check(false, fn, initCall, "delta log horizon = number of the snapshot being stored", "the writer contexts are never told which snapshot is being stored")
	}
	// terminate handshake deferred after init success, and runs before the delta writers are closed
	var termDefer, closeDefer *ssa.Defer
	for cl, d := range deferredClosures(fn) {
		for _, s := range p.CallSites(cl, hs) {
			if isConstInt(termS)(callOf(s).Args[1]) {
				termDefer = d
			}
		}
	}
	if !c.Check(termDefer != nil, fn, nil, "terminate handshake is deferred", "delta logging is not switched off on every exit: GC workers keep writing into closed files / the next backup starts in a wrong state") {
		return
	}
	c.Check(fi.Dominates(initCall, termDefer), fn, termDefer, "terminate handshake registered after the init handshake", "")
	// the deferred closure closing the delta writers: the one whose writers slice is passed to the init handshake
	var dw ssa.Value
	for _, a := range callOf(initCall).Args {
		if sl, ok := a.Type().Underlying().(*types.Slice); ok {
			if n, ok := sl.Elem().(*types.Named); ok && n.Obj().Name() == "FileWriter" {
				dw = strip(a)
			}
		}
	}
	if dw == nil {
		undecidedf("StoreToDisk: delta writers argument of the init handshake not found")
	}
	for cl, d := range deferredClosures(fn) {
		for _, in := range p.Info(cl).Instrs {
			cc := callOf(in)
			if cc == nil || !cc.IsInvoke() || cc.Method.Name() != "Close" {
				continue
			}
			// receiver is an element of the captured slice bound to the same cell as dw
			if sameSliceCell(cl, cc.Value, dw) {
				closeDefer = d
			}
		}
	}
	if c.Check(closeDefer != nil, fn, nil, "delta writers are closed by a deferred loop", "") {
		c.Check(fi.Dominates(closeDefer, termDefer), fn, termDefer, "terminate handshake runs before the delta writers are closed (defer order)",
			"deferred calls run last-in-first-out: the delta files would be closed while GC workers may still log into them, and their checksums are sampled after Close folded the terminator in")
	}
}

// sameSliceCell: receiver value `recv` inside closure cl is an element of a
// slice loaded from a captured variable whose parent cell also yields `parentSlice`.
func sameSliceCell(cl *ssa.Function, recv ssa.Value, parentSlice ssa.Value) bool {
	ld, ok := strip(recv).(*ssa.UnOp)
	if !ok {
		return false
	}
	ia, ok := ld.X.(*ssa.IndexAddr)
	if !ok {
		return false
	}
	sl, ok := strip(ia.X).(*ssa.UnOp)
	if !ok {
		return false
	}
	fv, ok := sl.X.(*ssa.FreeVar)
	if !ok {
		return false
	}
	cell := closureBinding(cl, fv)
	pl, ok := strip(parentSlice).(*ssa.UnOp)
	return ok && pl.X == cell
}

// C05.e: the restored item count is taken from the assembled store after the
// delta phase and before the snapshot is created.
func clRestoredCount(c *Ctx) {
	p := c.P
	fn := p.Func("nitro", "Nitro", "LoadFromDisk")
	fi := p.Info(fn)
	fItems := p.Field("nitro", "Nitro", "itemsCount")
	fStore := p.Field("nitro", "Nitro", "store")
	getStats := p.Func("skiplist", "Skiplist", "GetStats")
	newSnap := p.Func("nitro", "Nitro", "NewSnapshot")
	wgWait := p.StdFunc("sync", "WaitGroup", "Wait")
	sts := p.storesTo(fn, fItems)
	if !c.Check(len(sts) == 1, fn, nil, "restored count assigned once", "LoadFromDisk must set the instance's item count exactly once") {
		return
	}
	st := sts[0]
	// value = NodeCount of GetStats() of m.store
	var gs *ssa.Call
	var walk func(v ssa.Value, d int)
	walk = func(v ssa.Value, d int) {
		if d > 6 || gs != nil {
			return
		}
		v = strip(v)
		switch x := v.(type) {
		case *ssa.Call:
			if p.CallsAny(x, getStats) {
				gs = x
			}
		case *ssa.Field:
			walk(x.X, d+1)
		case *ssa.UnOp:
			walk(x.X, d+1)
		case *ssa.FieldAddr:
			walk(x.X, d+1)
		case *ssa.Alloc:
			for _, r := range referrersOf(x) {
				if s2, ok := r.(*ssa.Store); ok && s2.Addr == ssa.Value(x) {
					walk(s2.Val, d+1)
				}
			}
		}
	}
	walk(st.Val, 0)
	if !c.Check(gs != nil && lastField(gs.Call.Args[0]) == fStore, fn, st, "restored count = node count of the assembled store", "the item count of a restored instance is not derived from the structure that was built: Count() of the restored snapshot is wrong") {
		return
	}
	late := true
	for _, w := range p.CallSites(fn, wgWait) {
		if fi.Reaches(gs, w) {
			late = false
		}
	}
	c.Check(late, fn, st, "count sampled after all loader goroutines (data and delta) finished", "the count is sampled before the delta items were inserted")
	for _, ns := range p.CallSites(fn, newSnap) {
		c.Check(fi.Dominates(st, ns), fn, ns, "count installed before the snapshot is created", "the restored snapshot captures a stale count")
	}
	// the store read is the assembled one: the store assignment dominates
	for _, ss := range p.storesTo(fn, fStore) {
		c.Check(fi.Dominates(ss, gs), fn, ss, "assembled store installed before it is measured", "")
	}
}

// C05.c / C07.e: a delta item rejected by the duplicate check is freed.
func clDeltaRestoreFrees(c *Ctx) {
	p := c.P
	fn := p.Func("nitro", "Nitro", "LoadFromDisk")
	freeItem := p.Func("nitro", "Nitro", "freeItem")
	ins2 := p.Func("skiplist", "Skiplist", "Insert2")
	ins3 := p.Func("skiplist", "Skiplist", "Insert3")
	found := false
	for _, cl := range WithAnon(fn) {
		fi := p.Info(cl)
		for _, s := range p.CallSites(cl, ins2, ins3) {
			call, ok := s.(*ssa.Call)
			if !ok {
				continue
			}
			found = true
			item := strip(call.Call.Args[1])
			var success ssa.Value
			for _, r := range referrersOf(call) {
				if e, ok := r.(*ssa.Extract); ok && e.Index == 1 {
					success = e
				}
			}
			if !c.Check(success != nil, cl, s, "delta insert result is examined", "the outcome of inserting a delta item is ignored") {
				continue
			}
			okFree := false
			for _, fr := range p.CallSites(cl, freeItem) {
				if strip(callOf(fr).Args[1]) == item {
					c.Check(fi.guardedByValue(fr, success, false), cl, fr, "delta item freed only when it was rejected", "a delta item that was inserted into the store is freed while linked")
					if fi.guardedByValue(fr, success, false) {
						okFree = true
					}
				}
			}
			c.Check(okFree, cl, s, "rejected delta item is freed", "a delta item rejected as duplicate is leaked")
		}
	}
	if !found {
		c.Check(false, fn, nil, "delta items are inserted with the duplicate-rejecting insert", "the delta phase no longer inserts items through Insert2/Insert3")
	}
}

// The builder used by LoadFromDisk accounts items with the store's item size
// function from the first node on (Segment.Add adds Size(node)+ItemSize(item)
// to usedBytes; helpDelete later subtracts with the store's function).
func clRestoreItemSize(c *Ctx) {
	p := c.P
	fn := p.Func("nitro", "Nitro", "LoadFromDisk")
	fi := p.Info(fn)
	setSize := p.Func("skiplist", "Builder", "SetItemSizeFunc")
	newBuilder := p.Func("skiplist", "", "NewBuilderWithConfig")
	itemSize := p.Func("nitro", "", "ItemSize")
	var set ssa.Instruction
	for _, s := range p.CallSites(fn, setSize) {
		if f, ok := strip(callOf(s).Args[1]).(*ssa.Function); ok && f == itemSize {
			set = s
		}
	}
	nb := p.firstCall(fn, newBuilder)
	if !c.Check(set != nil && nb != nil && strip(callOf(set).Args[0]) == nb.(ssa.Value), fn, set, "restore builder is given the item size function", "restored nodes are accounted without their items: MemoryInUse under-reports after a restore and goes negative when the restored items are collected") {
		return
	}
	// before any loader goroutine can add a node
	early := true
	for _, in := range fi.Instrs {
		if _, isGo := in.(*ssa.Go); isGo && !fi.Dominates(set, in) {
			early = false
		}
	}
	c.Check(early, fn, set, "item size function installed before the loaders start adding nodes", "nodes added before the size function is installed are accounted with item size 0")
	// the instance's own stores use the same function
	isf := p.Func("nitro", "Nitro", "initSizeFuns")
	fStore := p.Field("nitro", "Nitro", "store")
	setI := p.Func("skiplist", "Config", "SetItemSizeFunc")
	ok := false
	for _, s := range p.CallSites(isf, setI) {
		if f, okf := strip(callOf(s).Args[1]).(*ssa.Function); okf && f == itemSize {
			chain, _ := fieldPath(callOf(s).Args[0])
			for _, fv := range chain {
				if fv == fStore {
					ok = true
				}
			}
		}
	}
	c.Check(ok, isf, nil, "the instance's item store uses the same item size function", "insert-side and unlink-side accounting use different item sizes")
}

// StoreToDisk is handed the snapshot and owns its release: on every exit the
// snapshot has been closed or a deferred close is pending (C06/C08: a handle
// kept by an early error return pins every later garbage list for ever).
func clBackupOwnsSnapshot(c *Ctx) {
	p := c.P
	fn := p.Func("nitro", "Nitro", "StoreToDisk")
	fi := p.Info(fn)
	snapClose := p.Func("nitro", "Snapshot", "Close")
	releases := func(in ssa.Instruction) bool {
		if callOf(in) == nil {
			return false
		}
		for _, cal := range p.Callees(in) {
			if cal == snapClose {
				return true
			}
			if _, isDefer := in.(*ssa.Defer); isDefer && cal.Parent() == fn && len(p.CallSites(cal, snapClose)) > 0 {
				return true
			}
		}
		return false
	}
	n := 0
	for _, in := range fi.Instrs {
		if releases(in) {
			n++
		}
	}
	if n == 0 {
		undecidedf("StoreToDisk: no release of the backup snapshot found")
	}
	w := fi.PathAvoiding(nil, func(x ssa.Instruction) bool {
		r, ok := x.(*ssa.Return)
		return ok && r.Block() != fn.Recover
	}, releases)
	c.Check(w == nil, fn, w, "every exit of StoreToDisk has released the snapshot it was handed (directly or by a pending defer)",
		"an early error return (shutdown, file open, init handshake) leaves the caller's snapshot reference open: the collector never passes that snapshot, so every version deleted afterwards stays in memory for ever")
}

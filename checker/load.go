package main

import (
	"fmt"
	"go/token"
	"go/types"
	"os"
	"sort"
	"strings"

	"golang.org/x/tools/go/callgraph"
	"golang.org/x/tools/go/callgraph/cha"
	"golang.org/x/tools/go/callgraph/vta"
	"golang.org/x/tools/go/packages"
	"golang.org/x/tools/go/ssa"
	"golang.org/x/tools/go/ssa/ssautil"
)

const modPath = "github.com/couchbase/nitro"

// Prog is one loaded, type-checked configuration of /repo.
type Prog struct {
	Config   string // "amd64" or "arm64-nocgo"
	Repo     string
	Fset     *token.FileSet
	Pkgs     []*packages.Package
	SSA      *ssa.Program
	SSAPkgs  map[string]*ssa.Package
	TypePkgs map[string]*types.Package
	CG       *callgraph.Graph
	Funcs    []*ssa.Function // source functions of the module (incl. anonymous)

	NumCallSites int
	infoCache    map[*ssa.Function]*FuncInfo
	helpers      map[*ssa.Function]helperLink
	byName       map[string]*ssa.Function
	exitCache    map[*ssa.Function]map[Fact]bool
	factCache    map[*ssa.Function]map[*ssa.BasicBlock]map[Fact]bool
}

// undecided is raised (as panic) whenever an anchor cannot be resolved or a
// rule meets a shape it cannot interpret. It never becomes a VIOLATION.
type undecided struct{ msg string }

func undecidedf(format string, args ...interface{}) {
	panic(undecided{fmt.Sprintf(format, args...)})
}

func shortPkg(path string) string {
	if path == modPath {
		return "nitro"
	}
	return strings.TrimPrefix(path, modPath+"/")
}

func longPkg(short string) string {
	if short == "nitro" {
		return modPath
	}
	if strings.Contains(short, ".") || strings.Contains(short, "/") && !strings.HasPrefix(short, "skiplist") {
		return short
	}
	switch short {
	case "skiplist", "nodetable", "mm", "examples":
		return modPath + "/" + short
	}
	return short
}

// Load loads the repository in the given configuration.
func Load(repo, config string, tests bool) (*Prog, error) {
	env := []string{}
	for _, e := range os.Environ() {
		if strings.HasPrefix(e, "GOWORK=") || strings.HasPrefix(e, "GOARCH=") || strings.HasPrefix(e, "CGO_ENABLED=") ||
			strings.HasPrefix(e, "GOFLAGS=") || strings.HasPrefix(e, "GOOS=") {
			continue
		}
		env = append(env, e)
	}
	env = append(env, "GOFLAGS=-mod=mod", "GOPROXY=off", "GOSUMDB=off", "GOTOOLCHAIN=local", "GOWORK=off", "GOOS=linux")
	patterns := []string{"./..."}
	switch config {
	case "amd64":
		env = append(env, "GOARCH=amd64", "CGO_ENABLED=1")
	case "arm64-nocgo":
		env = append(env, "GOARCH=arm64", "CGO_ENABLED=0")
		patterns = []string{"./skiplist"}
	default:
		return nil, fmt.Errorf("unknown config %q", config)
	}
	cfg := &packages.Config{
		Mode:  packages.LoadAllSyntax,
		Dir:   repo,
		Env:   env,
		Tests: tests,
	}
	pkgs, err := packages.Load(cfg, patterns...)
	if err != nil {
		return nil, fmt.Errorf("load: %v", err)
	}
	if len(pkgs) == 0 {
		return nil, fmt.Errorf("load: no packages matched in %s", repo)
	}
	var errs []string
	packages.Visit(pkgs, nil, func(p *packages.Package) {
		for _, e := range p.Errors {
			errs = append(errs, e.Error())
		}
	})
	if len(errs) > 0 {
		sort.Strings(errs)
		if len(errs) > 10 {
			errs = errs[:10]
		}
		return nil, fmt.Errorf("load: type/parse errors (no verdict possible):\n  %s", strings.Join(errs, "\n  "))
	}
	prog, spkgs := ssautil.AllPackages(pkgs, ssa.BuilderMode(0))
	prog.Build()
	p := &Prog{Config: config, Repo: repo, Fset: pkgs[0].Fset, Pkgs: pkgs, SSA: prog,
		SSAPkgs: map[string]*ssa.Package{}, TypePkgs: map[string]*types.Package{},
		infoCache: map[*ssa.Function]*FuncInfo{}}
	for i, sp := range spkgs {
		if sp == nil {
			return nil, fmt.Errorf("load: no SSA for package %s", pkgs[i].PkgPath)
		}
		// with Tests:true several variants share a path; prefer the non-test one
		if _, ok := p.SSAPkgs[pkgs[i].PkgPath]; !ok || pkgs[i].ID == pkgs[i].PkgPath {
			p.SSAPkgs[pkgs[i].PkgPath] = sp
			p.TypePkgs[pkgs[i].PkgPath] = pkgs[i].Types
		}
	}
	all := ssautil.AllFunctions(prog)
	p.CG = vta.CallGraph(all, cha.CallGraph(prog))
	for fn := range all {
		if fn.Pkg == nil && fn.Parent() == nil {
			continue
		}
		pk := fn.Package()
		if pk == nil || pk.Pkg == nil || !strings.HasPrefix(pk.Pkg.Path(), modPath) {
			continue
		}
		if fn.Blocks == nil || fn.Synthetic != "" {
			continue
		}
		p.Funcs = append(p.Funcs, fn)
		for _, b := range fn.Blocks {
			for _, in := range b.Instrs {
				if _, ok := in.(ssa.CallInstruction); ok {
					p.NumCallSites++
				}
			}
		}
	}
	sort.Slice(p.Funcs, func(i, j int) bool { return p.Funcs[i].String() < p.Funcs[j].String() })
	if len(p.Funcs) == 0 {
		return nil, fmt.Errorf("load: no source functions found")
	}
	p.computeTransparency()
	return p, nil
}

// ---------------------------------------------------------------- anchors

func (p *Prog) pkg(short string) *ssa.Package {
	sp := p.SSAPkgs[longPkg(short)]
	if sp == nil {
		undecidedf("anchor: package %s not loaded (config %s)", short, p.Config)
	}
	return sp
}

// Named returns the named type pkg.name.
func (p *Prog) Named(pkg, name string) *types.Named {
	sp := p.pkg(pkg)
	obj := sp.Pkg.Scope().Lookup(name)
	if obj == nil {
		undecidedf("anchor: type %s.%s not found", pkg, name)
	}
	n, ok := obj.Type().(*types.Named)
	if !ok {
		undecidedf("anchor: %s.%s is not a named type", pkg, name)
	}
	return n
}

// Field returns the field object pkg.Type.field (struct fields only).
func (p *Prog) Field(pkg, typ, field string) *types.Var {
	n := p.Named(pkg, typ)
	st, ok := n.Underlying().(*types.Struct)
	if !ok {
		undecidedf("anchor: %s.%s is not a struct", pkg, typ)
	}
	for i := 0; i < st.NumFields(); i++ {
		if st.Field(i).Name() == field {
			return st.Field(i)
		}
	}
	undecidedf("anchor: field %s.%s.%s not found", pkg, typ, field)
	return nil
}

// FieldOpt is Field but returns nil when absent.
func (p *Prog) FieldOpt(pkg, typ, field string) (v *types.Var) {
	defer func() {
		if r := recover(); r != nil {
			if _, ok := r.(undecided); ok {
				v = nil
				return
			}
			panic(r)
		}
	}()
	return p.Field(pkg, typ, field)
}

// Func returns the function or method. recv=="" for package level functions.
func (p *Prog) Func(pkg, recv, name string) *ssa.Function {
	f := p.FuncOpt(pkg, recv, name)
	if f == nil {
		if recv != "" {
			undecidedf("anchor: method (%s.%s).%s not found", pkg, recv, name)
		}
		undecidedf("anchor: function %s.%s not found", pkg, name)
	}
	return f
}

func (p *Prog) FuncOpt(pkg, recv, name string) *ssa.Function {
	sp := p.SSAPkgs[longPkg(pkg)]
	if sp == nil {
		return nil
	}
	if recv == "" {
		return sp.Func(name)
	}
	obj := sp.Pkg.Scope().Lookup(recv)
	if obj == nil {
		return nil
	}
	n, ok := obj.Type().(*types.Named)
	if !ok {
		return nil
	}
	for _, t := range []types.Type{n, types.NewPointer(n)} {
		ms := p.SSA.MethodSets.MethodSet(t)
		for i := 0; i < ms.Len(); i++ {
			sel := ms.At(i)
			if sel.Obj().Name() == name && len(sel.Index()) == 1 { // not promoted
				return p.SSA.MethodValue(sel)
			}
		}
	}
	return nil
}

// StdFunc returns a function/method object of a non-module package, e.g.
// ("sync/atomic","","AddInt32") or ("sync","WaitGroup","Wait").
func (p *Prog) StdFunc(pkgPath, recv, name string) *ssa.Function {
	sp := p.SSA.ImportedPackage(pkgPath)
	if sp == nil {
		return nil
	}
	if recv == "" {
		return sp.Func(name)
	}
	obj := sp.Pkg.Scope().Lookup(recv)
	if obj == nil {
		return nil
	}
	n, ok := obj.Type().(*types.Named)
	if !ok {
		return nil
	}
	for _, t := range []types.Type{n, types.NewPointer(n)} {
		ms := p.SSA.MethodSets.MethodSet(t)
		for i := 0; i < ms.Len(); i++ {
			if ms.At(i).Obj().Name() == name {
				return p.SSA.MethodValue(ms.At(i))
			}
		}
	}
	return nil
}

// Global returns the package level variable.
func (p *Prog) Global(pkg, name string) *ssa.Global {
	g := p.pkg(pkg).Var(name)
	if g == nil {
		undecidedf("anchor: global %s.%s not found", pkg, name)
	}
	return g
}

// Const returns the named constant object.
func (p *Prog) Const(pkg, name string) *types.Const {
	sp := p.pkg(pkg)
	c, ok := sp.Pkg.Scope().Lookup(name).(*types.Const)
	if !ok {
		undecidedf("anchor: constant %s.%s not found", pkg, name)
	}
	return c
}

func (p *Prog) pos(pos token.Pos) string {
	if !pos.IsValid() {
		return "-"
	}
	ps := p.Fset.Position(pos)
	f := strings.TrimPrefix(ps.Filename, p.Repo+"/")
	return fmt.Sprintf("%s:%d", f, ps.Line)
}

// fname gives a stable, readable function name: (*Nitro).Visitor$2
func fname(fn *ssa.Function) string {
	if fn == nil {
		return "<nil>"
	}
	s := fn.RelString(fn.Package().Pkg)
	return shortPkg(fn.Package().Pkg.Path()) + "." + s
}

package main

import (
	"go/token"
	"go/types"

	"golang.org/x/tools/go/ssa"
)

// C10.b: callback errors are collected per shard and returned after all
// workers finished; workers always signal completion.
func clVisitorErrors(c *Ctx) {
	p := c.P
	fn := p.Func("nitro", "Nitro", "Visitor")
	fi := p.Info(fn)
	wgWait := p.StdFunc("sync", "WaitGroup", "Wait")
	wgDone := p.StdFunc("sync", "WaitGroup", "Done")
	cnt := counter{}
	// workers
	workers := goClosures(fn)
	if len(workers) == 0 {
		undecidedf("Visitor: no worker goroutine found")
	}
	for w := range workers {
		wfi := p.Info(w)
		// the callback is the dynamic call of the captured VisitorCallback
		found := false
		for _, in := range wfi.Instrs {
			call, ok := in.(*ssa.Call)
			if !ok || call.Call.StaticCallee() != nil || call.Call.IsInvoke() {
				continue
			}
			if n, ok := call.Call.Value.Type().(*types.Named); !ok || n.Obj().Name() != "VisitorCallback" {
				continue
			}
			found = true
			ev, _ := errResult(call)
			rec := false
			if ev != nil {
				for _, s := range p.errSinks(ev) {
					if st, ok := s.(*ssa.Store); ok {
						if ia, ok := st.Addr.(*ssa.IndexAddr); ok && types.Identical(ia.X.Type().Underlying().(*types.Slice).Elem(), errorType) {
							// recorded only when non-nil is fine; recorded unconditionally is fine too
							rec = true
						}
					}
				}
			}
			c.Check(rec, w, in, cnt.in(w, "callback error recorded for its shard"), "an error returned by the visitor callback (e.g. a failed backup write) is dropped: Visitor returns nil")
		}
		if !found {
			c.Check(false, w, nil, "worker invokes the callback", "no call of the visitor callback found in the worker")
		}
		// Done deferred or on every path
		okDone := false
		for _, in := range wfi.Instrs {
			if d, ok := in.(*ssa.Defer); ok && p.CallsAny(d, wgDone) {
				all := true
				for _, r := range wfi.Returns() {
					if !wfi.Dominates(d, r) {
						all = false
					}
				}
				okDone = all
			}
		}
		if !okDone {
			okDone = wfi.PathAvoiding(nil, isReturn, func(x ssa.Instruction) bool { return p.IsCall(x, wgDone) }) == nil
		}
		c.Check(okDone, w, nil, "worker signals completion on every exit", "a worker can exit without wg.Done: Visitor never terminates")
	}
	// body: wait on every path, then scan the errors and return the first non-nil
	waits := p.CallSites(fn, wgWait)
	c.Check(len(waits) >= 1 && fi.PathAvoiding(nil, isReturn, func(x ssa.Instruction) bool { return p.IsCall(x, wgWait) }) == nil, fn, nil,
		"Visitor waits for all workers on every path", "Visitor can return while workers still run (and still hold snapshot references)")
	scan := false
	for _, ret := range fi.Returns() {
		if len(ret.Results) != 1 {
			continue
		}
		ld, ok := strip(fi.RetVal(ret, 0)).(*ssa.UnOp)
		if !ok || ld.Op != token.MUL {
			continue
		}
		if ia, ok := ld.X.(*ssa.IndexAddr); ok && types.Identical(ia.X.Type().Underlying().(*types.Slice).Elem(), errorType) {
			if len(waits) > 0 && fi.Dominates(waits[0], ret) && fi.guardedByCmp(ret, token.NEQ, isValue(ld), isNilConst) {
				scan = true
			}
		}
	}
	c.Check(scan, fn, nil, "recorded shard errors are returned after the workers finished", "Visitor does not return the first recorded callback error")
	// nil is returned only after the scan loop completed
	for _, ret := range fi.Returns() {
		if len(ret.Results) == 1 && isNilConst(fi.RetVal(ret, 0)) {
			c.Check(len(waits) > 0 && fi.Dominates(waits[0], ret), fn, ret, "success only after the workers finished", "")
		}
	}
}

// C10.c: the work channel cannot wedge the producer.
func clVisitorTermination(c *Ctx) {
	p := c.P
	fn := p.Func("nitro", "Nitro", "Visitor")
	fi := p.Info(fn)
	var work *ssa.MakeChan
	for _, in := range fi.Instrs {
		if s, ok := in.(*ssa.Send); ok {
			if mc := chanOrigin(s.Chan); mc != nil {
				work = mc
			}
		}
	}
	if work == nil {
		undecidedf("Visitor: work channel not found")
	}
	if n, isC := constInt(work.Size); isC && n == 0 {
		// unbuffered: workers must not leave their loop early
		clNoWorkerWedge(c, fn)
	} else {
		// buffered: a worker may return early only if the buffer can take every
		// shard id the producer will ever send. The number of sends is
		// len(pivotItems)-1 <= nways of GetRangeSplitItems, so the capacity must
		// be that very value.
		early := false
		for cl := range goClosures(fn) {
			cfi := p.Info(cl)
			for _, in := range cfi.Instrs {
				rcv, ok := in.(*ssa.UnOp)
				if !ok || rcv.Op != token.ARROW || chanOrigin(rcv.X) != work || !rcv.CommaOk {
					continue
				}
				for _, r := range referrersOf(rcv) {
					if e, ok := r.(*ssa.Extract); ok && e.Index == 1 {
						for _, rr := range referrersOf(e) {
							if ifi, ok := rr.(*ssa.If); ok {
								if cfi.PathFromBlock(ifi.Block().Succs[0], isReturn, func(x ssa.Instruction) bool { return x == ssa.Instruction(rcv) }) != nil {
									early = true
								}
							}
						}
					}
				}
			}
		}
		if !early {
			c.Check(true, fn, work, "workers drain the work channel (no early exit)", "")
		} else {
			split := p.Func("skiplist", "Skiplist", "GetRangeSplitItems")
			varOf := func(f *ssa.Function, v ssa.Value) ssa.Value {
				v = strip(v)
				if u, ok := v.(*ssa.UnOp); ok && u.Op == token.MUL {
					switch a := u.X.(type) {
					case *ssa.Alloc:
						return a
					case *ssa.FreeVar:
						return closureBinding(f, a)
					}
				}
				return v
			}
			capVar := varOf(fn, work.Size)
			same := false
			for _, f := range WithAnon(fn) {
				for _, s := range p.CallSites(f, split) {
					if varOf(f, callOf(s).Args[1]) == capVar {
						same = true
					}
				}
			}
			c.Check(same, fn, work, "work channel capacity is the split count that bounds the number of shard ids sent",
				"workers may return early on a callback error, so the producer must never block: the channel must be able to hold every shard id (capacity = nways of GetRangeSplitItems = shards). With a smaller buffer Visitor hangs once all workers have exited on errors")
		}
		c.Note("Visitor: the bound sends <= shards rests on GetRangeSplitItems returning at most nways-1 pivots (sound for nways >= 2; for nways == 1 it rests on up-to-date level statistics) — accepted instance with its gap, not claimed as decided")
	}
	// the channel is closed and the close precedes the wait
	wgWait := p.StdFunc("sync", "WaitGroup", "Wait")
	var cl ssa.Instruction
	for _, in := range fi.Instrs {
		if isBuiltin(in, "close") && chanOrigin(callOf(in).Args[0]) == work {
			cl = in
		}
	}
	okClose := cl != nil && fi.PathAvoiding(nil, func(x ssa.Instruction) bool { return p.IsCall(x, wgWait) }, func(x ssa.Instruction) bool { return x == cl }) == nil
	c.Check(okClose, fn, cl, "work channel closed before waiting for the workers", "workers ranging over the work channel never finish: Visitor hangs")
}

// Shard start: key-only positioning (Seek with the pivot's bytes / SeekFirst)
func clVisitorShardStart(c *Ctx) {
	p := c.P
	fn := p.Func("nitro", "Nitro", "Visitor")
	itSeek := p.Func("nitro", "Iterator", "Seek")
	itSeekFirst := p.Func("nitro", "Iterator", "SeekFirst")
	bytesFn := p.Func("nitro", "Item", "Bytes")
	for w := range goClosures(fn) {
		wfi := p.Info(w)
		seeks := p.CallSites(w, itSeek)
		firsts := p.CallSites(w, itSeekFirst)
		c.Check(len(seeks) == 1 && len(firsts) == 1, w, nil, "a shard starts at its pivot (Seek) or at the beginning (SeekFirst)", "the worker no longer positions its iterator at the shard's start pivot")
		for _, s := range seeks {
			b, ok := strip(callOf(s).Args[1]).(*ssa.Call)
			okArg := ok && p.CallsAny(b, bytesFn)
			var pivot ssa.Value
			if okArg {
				pivot = strip(b.Call.Args[0])
			}
			c.Check(okArg, w, s, "shard start seeks the start pivot's key", "")
			if pivot != nil {
				c.Check(wfi.guardedByCmp(s, token.NEQ, isValue(pivot), isNilConst), w, s, "Seek only when the shard has a start pivot", "")
				// start pivot = pivotItems[shard], end pivot = pivotItems[shard+1]
				if ld, ok := pivot.(*ssa.UnOp); ok {
					if ia, ok := ld.X.(*ssa.IndexAddr); ok {
						_, isAdd := strip(ia.Index).(*ssa.BinOp)
						c.Check(!isAdd, w, s, "start pivot is pivotItems[shard]", "the shard starts at its END pivot")
					}
				}
			}
		}
	}
}

// The shard pivots outlive the barrier bracket they were gathered in, so they
// must be private copies (ptrToItem), never raw pointers into the store.
func clVisitorPivotCopies(c *Ctx) {
	p := c.P
	fn := p.Func("nitro", "Nitro", "Visitor")
	ptrToItem := p.Func("nitro", "Nitro", "ptrToItem")
	newItem := p.Func("nitro", "Nitro", "newItem")
	split := p.Func("skiplist", "Skiplist", "GetRangeSplitItems")
	n := 0
	for _, f := range WithAnon(fn) {
		fi := p.Info(f)
		if len(p.CallSites(f, split)) == 0 {
			continue
		}
		for _, in := range fi.Instrs {
			call, ok := in.(*ssa.Call)
			if !ok || !isBuiltin(call, "append") {
				continue
			}
			// append(pivotItems, v...) where the slice holds *Item
			sl, ok := call.Type().Underlying().(*types.Slice)
			if !ok {
				continue
			}
			pt, ok := sl.Elem().(*types.Pointer)
			if !ok || !types.Identical(pt.Elem(), p.Named("nitro", "Item")) {
				continue
			}
			// the appended elements: stores into the varargs array
			vs, ok := strip(call.Call.Args[1]).(*ssa.Slice)
			if !ok {
				continue
			}
			arr, ok := vs.X.(*ssa.Alloc)
			if !ok {
				continue
			}
			for _, r := range referrersOf(arr) {
				ia, ok := r.(*ssa.IndexAddr)
				if !ok {
					continue
				}
				for _, rr := range referrersOf(ia) {
					st, ok := rr.(*ssa.Store)
					if !ok {
						continue
					}
					n++
					v := strip(st.Val)
					okv := isNilConst(v)
					if cc, isCall := v.(*ssa.Call); isCall && p.CallsAny(cc, ptrToItem, newItem) {
						okv = true
					}
					if !isNilConst(v) {
						// the list of pivots is strictly increasing: a candidate is taken only if it compares ABOVE the previous one
						isInc := func(gv ssa.Value, val bool) bool {
							cmp, okc := cmpOf(gv, val)
							if !okc {
								return false
							}
							isCmpCall := func(x ssa.Value) bool {
								cl, isC := strip(x).(*ssa.Call)
								return isC && cl.Call.StaticCallee() == nil && !cl.Call.IsInvoke() && len(cl.Call.Args) == 2
							}
							return cmp.match(token.GTR, isCmpCall, isConstInt(0)) || cmp.match(token.GEQ, isCmpCall, isConstInt(1))
						}
						isFirst := func(gv ssa.Value, val bool) bool {
							cmp, okc := cmpOf(gv, val)
							return okc && cmp.Op == token.EQL && (isNilConst(cmp.X) || isNilConst(cmp.Y))
						}
						// `prev == nil || cmp(itm, prev) > 0`: every edge into the accepting block carries one of the two facts
						var edgesOK func(b *ssa.BasicBlock, depth int) bool
						edgesOK = func(b *ssa.BasicBlock, depth int) bool {
							if len(b.Preds) == 0 || depth > 3 {
								return false
							}
							for _, pb := range b.Preds {
								ok := false
								for fct := range fi.EdgeFactSet(pb, b) {
									if isInc(fct.V, fct.Val) || isFirst(fct.V, fct.Val) {
										ok = true
									}
								}
								if !ok && len(pb.Succs) == 1 {
									ok = edgesOK(pb, depth+1)
								}
								if !ok {
									return false
								}
							}
							return true
						}
						inc := fi.Guarded(call, isInc) || edgesOK(call.Block(), 0)
						first := fi.Guarded(call, isFirst)
						c.Check(inc || first, f, st, "a shard pivot is accepted only if it compares above the previous pivot (or is the first)",
							"pivots are filtered by inequality instead of order: a pivot walk that restarted (it met a node being deleted) yields a non-monotonic pivot list, shard ranges overlap and a key range is delivered twice")
					}
					c.Check(okv, f, st, "shard pivot kept beyond the barrier bracket is a private copy", "a raw pointer to a store item is kept as shard pivot after the barrier session that protected it was released: the item can be collected and freed while shards still compare against it (use-after-free; shard boundaries read garbage)")
				}
			}
		}
	}
	if n == 0 {
		undecidedf("Visitor: pivot list construction not found")
	}
}

package main

import (
	"go/token"
	"os"
	"unicode"

	"golang.org/x/tools/go/ssa"
)

// Transparent helpers
//
// A module function H is *transparent* when it is private to one caller:
//   - it has a body, is not synthetic, is anonymous or has an unexported name;
//   - it is statically called from exactly one place in the module, by a plain
//     call (not go/defer), from another function;
//   - its function value is not used in any other way (stored, passed, bound).
// Extracting such a helper out of a function (or writing an immediately invoked
// closure) does not change behaviour, so the analyses look through it:
//   - FuncInfo.Instrs of the caller contains the helper's instructions;
//   - path searches descend into the helper at the call and continue after the
//     call when the helper returns;
//   - facts that hold at the call site hold inside the helper;
//   - parameters (and captured variables) are aliased to the actual arguments,
//     a single-return helper's call value to the returned value.

type helperLink struct {
	call   *ssa.Call
	caller *ssa.Function
}

// value aliases installed for transparent helpers (see strip()).
var valueAlias = map[ssa.Value]ssa.Value{}

// Atomic accessor wrappers: module functions (any number of call sites, not
// already transparent) whose whole body is ONE sync/atomic operation on a field
// reached from a parameter, returning that operation's result (or nothing).
// A call of such a wrapper IS the atomic operation for every rule; the
// operation inside the wrapper is not reported a second time (see atomicOp).
type atomicWrapper struct {
	inner *ssa.Call
	fn    *ssa.Function
}

var atomicWrappers = map[*ssa.Function]*atomicWrapper{}

func wrapperCandidate(h *ssa.Function) *atomicWrapper {
	if h.Blocks == nil || len(h.Blocks) != 1 || h.Synthetic != "" {
		return nil
	}
	var inner *ssa.Call
	var ret *ssa.Return
	for _, in := range h.Blocks[0].Instrs {
		switch x := in.(type) {
		case *ssa.FieldAddr, *ssa.Field, *ssa.DebugRef, *ssa.ChangeType, *ssa.Convert:
		case *ssa.UnOp:
			if x.Op != token.MUL {
				return nil
			}
		case *ssa.Call:
			f := x.Call.StaticCallee()
			if f == nil || f.Pkg == nil || f.Pkg.Pkg.Path() != "sync/atomic" || inner != nil {
				return nil
			}
			inner = x
		case *ssa.Return:
			ret = x
		default:
			return nil
		}
	}
	if inner == nil || ret == nil || len(inner.Call.Args) == 0 {
		return nil
	}
	if len(ret.Results) > 1 || (len(ret.Results) == 1 && stripConv(ret.Results[0]) != ssa.Value(inner)) {
		return nil
	}
	// address: field chain rooted at a parameter; other arguments: parameters or constants
	root := inner.Call.Args[0]
	for n := 0; n < 8; n++ {
		switch x := root.(type) {
		case *ssa.FieldAddr:
			root = x.X
			continue
		case *ssa.UnOp:
			root = x.X
			continue
		}
		break
	}
	if _, ok := root.(*ssa.Parameter); !ok {
		return nil
	}
	for _, a := range inner.Call.Args[1:] {
		switch stripConv(a).(type) {
		case *ssa.Parameter, *ssa.Const:
		default:
			return nil
		}
	}
	return &atomicWrapper{inner: inner, fn: h}
}

func stripConv(v ssa.Value) ssa.Value {
	for n := 0; n < 8; n++ {
		switch x := v.(type) {
		case *ssa.ChangeType:
			v = x.X
		case *ssa.Convert:
			v = x.X
		default:
			return v
		}
	}
	return v
}

// instruction index inside its block, for all module functions
var instrIdx = map[ssa.Instruction]int{}

func (p *Prog) computeTransparency() {
	p.helpers = map[*ssa.Function]helperLink{}
	type use struct {
		calls []ssa.CallInstruction
		other int
	}
	uses := map[*ssa.Function]*use{}
	get := func(f *ssa.Function) *use {
		if uses[f] == nil {
			uses[f] = &use{}
		}
		return uses[f]
	}
	var all []*ssa.Function
	all = append(all, p.Funcs...)
	for _, fn := range all {
		for _, b := range fn.Blocks {
			for i, in := range b.Instrs {
				instrIdx[in] = i
				var callee *ssa.Function
				var calleeVal ssa.Value
				if ci, ok := in.(ssa.CallInstruction); ok {
					callee = ci.Common().StaticCallee()
					calleeVal = ci.Common().Value
					if callee != nil {
						get(callee).calls = append(get(callee).calls, ci)
					}
				}
				// any other reference to a function value
				for _, op := range in.Operands(nil) {
					if op == nil || *op == nil {
						continue
					}
					switch v := (*op).(type) {
					case *ssa.Function:
						if ssa.Value(v) != calleeVal {
							get(v).other++
						}
					case *ssa.MakeClosure:
						if ssa.Value(v) != calleeVal {
							if f, ok := v.Fn.(*ssa.Function); ok {
								get(f).other++
							}
						}
					}
				}
			}
		}
	}
	for _, h := range all {
		if h.Blocks == nil || h.Synthetic != "" {
			continue
		}
		if h.Parent() == nil {
			r := []rune(h.Name())
			if len(r) == 0 || unicode.IsUpper(r[0]) || h.Name() == "init" || h.Name() == "main" {
				continue
			}
		}
		u := uses[h]
		if u == nil || len(u.calls) != 1 || u.other != 0 {
			continue
		}
		call, ok := u.calls[0].(*ssa.Call)
		if !ok || call.Parent() == h {
			continue
		}
		// a closure that is made once but could be called from elsewhere through a variable is excluded by other==0
		p.helpers[h] = helperLink{call, call.Parent()}
	}
	// break cycles / limit depth
	for h := range p.helpers {
		seen := map[*ssa.Function]bool{h: true}
		cur := p.helpers[h].caller
		for d := 0; ; d++ {
			l, ok := p.helpers[cur]
			if !ok {
				break
			}
			if seen[cur] || d > 8 {
				delete(p.helpers, h)
				break
			}
			seen[cur] = true
			cur = l.caller
		}
	}
	// atomic accessor wrappers (only functions that are not already looked through)
	for _, h := range all {
		if _, isHelper := p.helpers[h]; isHelper {
			continue
		}
		u := uses[h]
		if u == nil || len(u.calls) == 0 || u.other != 0 {
			continue
		}
		if w := wrapperCandidate(h); w != nil {
			atomicWrappers[h] = w
			if os.Getenv("NITRO_DEBUG") != "" {
				println("atomic wrapper:", h.String())
			}
		}
	}
	// aliases
	for h, l := range p.helpers {
		args := l.call.Call.Args
		if len(args) == len(h.Params) {
			for i, prm := range h.Params {
				valueAlias[prm] = args[i]
			}
		}
		if mc, ok := l.call.Call.Value.(*ssa.MakeClosure); ok {
			for i, fv := range h.FreeVars {
				if i < len(mc.Bindings) {
					valueAlias[fv] = mc.Bindings[i]
				}
			}
		}
		// single normal return -> alias the call value (or its extracts)
		var rets []*ssa.Return
		for _, b := range h.Blocks {
			if b == h.Recover {
				continue
			}
			for _, in := range b.Instrs {
				if r, ok := in.(*ssa.Return); ok {
					rets = append(rets, r)
				}
			}
		}
		if len(rets) == 1 && !hasDefers(h) {
			r := rets[0]
			if len(r.Results) == 1 {
				retAlias[l.call] = r.Results[0]
			} else if len(r.Results) > 1 {
				for _, ref := range referrersOf(l.call) {
					if e, ok := ref.(*ssa.Extract); ok && e.Index < len(r.Results) {
						retAlias[e] = r.Results[e.Index]
					}
				}
			}
		}
	}
}

func hasDefers(f *ssa.Function) bool {
	for _, b := range f.Blocks {
		for _, in := range b.Instrs {
			if _, ok := in.(*ssa.Defer); ok {
				return true
			}
		}
	}
	return false
}

// Root climbs from a transparent helper to the function it belongs to.
func (p *Prog) Root(fn *ssa.Function) *ssa.Function {
	for d := 0; d < 10; d++ {
		l, ok := p.helpers[fn]
		if !ok {
			return fn
		}
		fn = l.caller
	}
	return fn
}

// helperCall: in is a plain call of a transparent helper.
func (p *Prog) helperCall(in ssa.Instruction) *ssa.Function {
	call, ok := in.(*ssa.Call)
	if !ok {
		return nil
	}
	h := call.Call.StaticCallee()
	if h == nil {
		return nil
	}
	if l, ok := p.helpers[h]; ok && l.call == call {
		return h
	}
	return nil
}

// flatInstrs lists the instructions of fn with transparent helpers expanded in
// place (after their call instruction).
func (p *Prog) flatInstrs(fn *ssa.Function, depth int) []ssa.Instruction {
	var out []ssa.Instruction
	for _, b := range fn.Blocks {
		for _, in := range b.Instrs {
			out = append(out, in)
			if depth < 8 {
				if h := p.helperCall(in); h != nil {
					out = append(out, p.flatInstrs(h, depth+1)...)
				}
			}
		}
	}
	return out
}

// Own lists the instructions written in fn itself (helpers not expanded); used
// by module-wide enumerations so that nothing is visited twice.
func (p *Prog) Own(fn *ssa.Function) []ssa.Instruction {
	var out []ssa.Instruction
	for _, b := range fn.Blocks {
		out = append(out, b.Instrs...)
	}
	return out
}

func (p *Prog) ownCallSites(fn *ssa.Function, fns ...*ssa.Function) []ssa.Instruction {
	var out []ssa.Instruction
	for _, in := range p.Own(fn) {
		if callOf(in) != nil && p.CallsAny(in, fns...) {
			out = append(out, in)
		}
	}
	return out
}

// sameRoot: a and b belong to the same function after looking through
// transparent helpers.
func (p *Prog) sameRoot(a, b *ssa.Function) bool {
	return a != nil && b != nil && p.Root(a) == p.Root(b)
}

// seeRet looks through the call of a transparent single-return helper to the
// value it returns.
func seeRet(v ssa.Value) ssa.Value {
	for n := 0; n < 16; n++ {
		if a, ok := retAlias[v]; ok && a != nil {
			v = a
			continue
		}
		return v
	}
	return v
}

var retAlias = map[ssa.Value]ssa.Value{}

func (p *Prog) funcByFname(name string) *ssa.Function {
	if p.byName == nil {
		p.byName = map[string]*ssa.Function{}
		for _, f := range p.Funcs {
			p.byName[fname(f)] = f
		}
	}
	return p.byName[name]
}

// funcsReturnedBy resolves the function values a constructor returns: a
// closure (its anonymous function) or a bound method value (the method).
func (p *Prog) funcsReturnedBy(fn *ssa.Function) []*ssa.Function {
	var out []*ssa.Function
	for _, b := range fn.Blocks {
		for _, in := range b.Instrs {
			ret, ok := in.(*ssa.Return)
			if !ok {
				continue
			}
			for _, r := range ret.Results {
				v := r
				for n := 0; n < 8; n++ {
					switch x := v.(type) {
					case *ssa.ChangeType:
						v = x.X
						continue
					case *ssa.MakeInterface:
						v = x.X
						continue
					}
					break
				}
				switch x := v.(type) {
				case *ssa.MakeClosure:
					f := x.Fn.(*ssa.Function)
					if f.Synthetic != "" {
						// bound method wrapper: the method it calls
						for _, bb := range f.Blocks {
							for _, i2 := range bb.Instrs {
								if c := callOf(i2); c != nil && c.StaticCallee() != nil {
									out = append(out, c.StaticCallee())
								}
							}
						}
					} else {
						out = append(out, f)
					}
				case *ssa.Function:
					out = append(out, x)
				}
			}
		}
	}
	return out
}

// retSources: when v is the call of a transparent helper (or an Extract of
// it), the values the helper returns in that position, over all its returns
// (named results resolved through the result cells). nil otherwise.
func (p *Prog) retSources(v ssa.Value) []ssa.Value {
	idx := 0
	var call *ssa.Call
	switch x := v.(type) {
	case *ssa.Extract:
		c, ok := x.Tuple.(*ssa.Call)
		if !ok {
			return nil
		}
		call, idx = c, x.Index
	case *ssa.Call:
		call = x
	default:
		return nil
	}
	h := call.Call.StaticCallee()
	if h == nil {
		return nil
	}
	if l, ok := p.helpers[h]; !ok || l.call != call {
		return nil
	}
	hfi := p.Info(h)
	var out []ssa.Value
	for _, r := range hfi.Returns() {
		if idx < len(r.Results) {
			out = append(out, hfi.RetVal(r, idx))
		}
	}
	return out
}

// paramOfHelper: when in is the call of a transparent helper and v is passed
// as its i-th argument, the helper's parameter; nil otherwise.
func (p *Prog) paramOfHelper(in ssa.Instruction, v ssa.Value) *ssa.Parameter {
	call, ok := in.(*ssa.Call)
	if !ok {
		return nil
	}
	h := call.Call.StaticCallee()
	if h == nil {
		return nil
	}
	if l, ok := p.helpers[h]; !ok || l.call != call {
		return nil
	}
	for i, a := range call.Call.Args {
		if a == v && i < len(h.Params) {
			return h.Params[i]
		}
	}
	return nil
}

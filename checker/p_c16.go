package main

func init() {
	register(&PropCheck{
		ID: "C16",
		Explanation: "The interleaving argument of the access barrier (offset trick) is model-checking territory and NOT decided. Decided necessary conditions: (a) lockset: session tagging state (activeSeqno, numAllocated, objectRef, seqno) is written only under the barrier mutex; freeSeqno/numFreed only by the cleanup, which runs only under the isDestructorRunning try-lock; " +
			"(b) tag before close: FlushSession installs the new session and sets objectRef/seqno (consecutive) before it adds exactly barrierFlushOffset+1, then releases exactly that session; (c) terminate once by the count's own witness: Release queues a session only on (own decrement result == offset) and (closed counter == 1); Acquire returns a session only on (own increment result <= offset), otherwise releases and re-reads the current session; " +
			"(d) ordered, paired destruction: doCleanup calls the destructor only for seqno == freeSeqno+1 with that session's object, advances freeSeqno once before, removes and counts the session once after; only doCleanup calls the destructor.",
		Assumptions: []string{"sync/atomic and sync.Mutex are correct"},
		Run: func(c *Ctx) {
			c.Do("C16.a", "L10 lockset", 6, func() { clBarrierLockset(c) })
			c.Do("C16.b", "L2 tag before close", 6, func() { clFlushOrder(c) })
			c.Do("C16.c", "L1 terminate once", 6, func() { clTerminateOnce(c) })
			c.Do("C16.d", "L1+L2 ordered paired destruction", 6, func() { clCleanupOrder(c); clFreeFeed(c); clTryLockRecheck(c) })
		},
	})
	register(&PropCheck{
		ID: "C17",
		Explanation: "Liveness over all schedules is not a static property, but the lost-wakeup SHAPE is: (a) try-lock hand-off must re-check: after a producer makes work visible (queue insert) and the holder of the try-lock drains and drops the flag, every path to return re-examines the queue and a positive re-check leads back to the try-lock; " +
			"(b) the cleanup walks from the front of the queue on every invocation, advances only after destructing, and stops only at a gap or at the end; (c) Close frees only linked nodes (C07.c) — whether sessions are pending then is (a). NOT decided: fairness, termination of accessors.",
		Assumptions: []string{},
		Run: func(c *Ctx) {
			c.Do("C17.a", "L10 try-lock hand-off re-checks", 3, func() { clTryLockRecheck(c) })
			c.Do("C17.b", "L2 cleanup walks from the front", 5, func() { clCleanupOrder(c) })
			c.Do("C17.c", "L2 session termination feeds the cleanup and the free workers", 6, func() {
				clTerminateOnce(c)
				clFreeFeed(c)
				clStoreCursorsClosed(c)
				clSkiplistCursorSession(c)
				clTokenPairing(c)
			})
		},
	})
}

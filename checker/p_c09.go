package main

func init() {
	register(&PropCheck{
		ID: "C09",
		Explanation: "Decides structural necessary conditions of exact iterator positioning: (a) every call that moves the underlying cursor of a snapshot iterator is followed, on every path to return, by the visibility filter, Refresh (whose re-seek is key-only) runs only after the filter repositioned the cursor, and the underlying Next loops back to re-examine the current node only if the cursor did not move; " +
			"(b) the underlying cursor is always built with the key-only comparator on the item store (role table); (c) Refresh re-seeks with a private copy of the current item made before the old cursor's session ends; (d) the visibility filter equals its reference decision table. " +
			"NOT decided: independence from the refresh rate as a value-level statement, count arithmetic.",
		Assumptions: []string{},
		Run: func(c *Ctx) {
			c.Do("C09.a", "L2 cursor moves end on a visible item", 7, func() {
				clCursorMovesFiltered(c)
				clRefreshOnlyOnVisible(c)
				clSkiplistNextAdvancesOnce(c)
				clCursorRevalidated(c)
			})
			c.Do("C09.b", "L4+L5 seek comparator role and tables", 8, func() {
				clComparatorRoles(c, map[string]bool{"field:store": true})
				clItemComparatorTables(c)
				clComparatorWiring(c)
				clKeyOpsAlwaysSearch(c)
				clFindPathRecordsEachLevel(c)
			})
			c.Do("C09.c", "L11 refresh copies before dropping the session", 2, func() { clRefreshCopies(c); clSkiplistRefreshOrder(c); clBuiltinRefreshNotOnStore(c) })
			c.Do("C09.d", "L5 visibility decision table", 2, func() { clVisibilityTable(c) })
		},
	})
}

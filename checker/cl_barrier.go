package main

import (
	"fmt"
	"go/token"
	"go/types"

	"golang.org/x/tools/go/ssa"
)

// atomicOnLoadedField: atomic op whose address operand is the VALUE of a
// pointer field (bs.liveCount is *int32).
func atomicOnPtrField(in ssa.Instruction, fv *types.Var) (string, bool) {
	k, addr := atomicOp(in)
	if k == "" {
		return "", false
	}
	f, _ := loadedField(addr)
	return k, f == fv
}

func (p *Prog) mutexHeld(fi *FuncInfo, at ssa.Instruction) bool {
	lock := p.StdFunc("sync", "Mutex", "Lock")
	unlock := p.StdFunc("sync", "Mutex", "Unlock")
	held := fi.MustPrecede(at, func(x ssa.Instruction) bool { return p.IsCall(x, lock) })
	if !held {
		return false
	}
	// not released before `at`
	for _, in := range fi.Instrs {
		if p.IsCall(in, unlock) && fi.Reaches(in, at) {
			return false
		}
	}
	return true
}

// C16.a lockset
func clBarrierLockset(c *Ctx) {
	p := c.P
	cnt := counter{}
	underMutex := []*types.Var{
		p.Field("skiplist", "AccessBarrier", "activeSeqno"), p.Field("skiplist", "AccessBarrier", "numAllocated"),
		p.Field("skiplist", "BarrierSession", "objectRef"), p.Field("skiplist", "BarrierSession", "seqno"),
	}
	n := 0
	for _, fv := range underMutex {
		for _, w := range p.fieldWrites(fv) {
			if isFreshBase(w.base) {
				continue
			}
			n++
			c.Check(w.kind == "store" && p.mutexHeld(p.Info(w.fn), w.in), w.fn, w.in, cnt.in(w.fn, "write of "+fv.Name()+" under the barrier mutex"),
				"session tagging state is written outside ab.Lock(): two concurrent flushes can hand out the same sequence number or tag the wrong session")
		}
	}
	// the current-session pointer is swapped only under the mutex (single flusher),
	// so that close numbers are taken in the order the sessions were closed
	fSess := p.Field("skiplist", "AccessBarrier", "session")
	for _, w := range p.fieldWrites(fSess) {
		if isFreshBase(w.base) {
			continue
		}
		n++
		c.Check(w.kind != "store" && p.mutexHeld(p.Info(w.fn), w.in), w.fn, w.in, cnt.in(w.fn, "session swap under the barrier mutex"),
			"two racing flushers can swap sessions in one order and take close numbers in the other: a later-closed session is destructed before an earlier-closed one whose accessors can still reach its objects")
	}
	// try-lock owned state
	fRun := p.Field("skiplist", "AccessBarrier", "isDestructorRunning")
	doCleanup := p.Func("skiplist", "AccessBarrier", "doCleanup")
	for _, fv := range []*types.Var{p.Field("skiplist", "AccessBarrier", "freeSeqno"), p.Field("skiplist", "AccessBarrier", "numFreed")} {
		for _, w := range p.fieldWrites(fv) {
			if isFreshBase(w.base) {
				continue
			}
			n++
			c.Check(p.sameRoot(w.fn, doCleanup), w.fn, w.in, cnt.in(w.fn, "write of "+fv.Name()+" only by the cleanup"), "the free sequence is advanced outside the single running cleanup")
		}
	}
	for _, s := range p.AllCallSites(doCleanup) {
		fn := s.Parent()
		fi := p.Info(fn)
		held := fi.Guarded(s, func(v ssa.Value, val bool) bool {
			call, ok := fi.resolveCell(v).(*ssa.Call)
			if !ok || !val {
				return false
			}
			k, on := atomicOnField(call, fRun)
			return on && k == "CAS" && isConstInt(0)(atomicArgs(call)[1]) && isConstInt(1)(atomicArgs(call)[2])
		})
		c.Check(held, fn, s, cnt.in(fn, "cleanup runs only under the isDestructorRunning try-lock"), "two cleanups can run concurrently: a session is destructed twice or out of order")
		n++
	}
	if n < 6 {
		undecidedf("barrier lockset: only %d writes found", n)
	}
}

// C16.b tag before close (FlushSession)
func clFlushOrder(c *Ctx) {
	p := c.P
	fn := p.Func("skiplist", "AccessBarrier", "FlushSession")
	fi := p.Info(fn)
	fLive := p.Field("skiplist", "BarrierSession", "liveCount")
	fRef := p.Field("skiplist", "BarrierSession", "objectRef")
	fSeq := p.Field("skiplist", "BarrierSession", "seqno")
	fSession := p.Field("skiplist", "AccessBarrier", "session")
	fActive := p.Field("skiplist", "AccessBarrier", "activeSeqno")
	release := p.Func("skiplist", "AccessBarrier", "Release")
	offset, _ := constantInt64(p.Const("skiplist", "barrierFlushOffset"))
	var add, swap, rel ssa.Instruction
	for _, in := range fi.Instrs {
		if k, on := atomicOnPtrField(in, fLive); on && k == "Add" {
			add = in
		}
		if k, on := atomicOnField(in, fSession); on && (k == "CAS" || k == "Swap" || k == "Store") {
			swap = in
		}
		if p.IsCall(in, release) {
			rel = in
		}
	}
	if !c.Check(add != nil && swap != nil && rel != nil, fn, nil, "flush = install new session, tag old one, add the offset, release", "FlushSession no longer closes the current session by adding the flush offset and releasing it") {
		return
	}
	n, isC := constInt(atomicArgs(add)[1])
	c.Check(isC && n == offset+1, fn, add, "flush adds exactly barrierFlushOffset+1 to the live count", "the closing offset does not match what Acquire/Release test for: closed sessions are never recognised, or terminate with accessors inside")
	for _, e := range []struct {
		fv   *types.Var
		what string
	}{{fRef, "objectRef"}, {fSeq, "seqno"}} {
		sts := p.storesTo(fn, e.fv)
		ok := len(sts) == 1 && fi.Dominates(sts[0], add)
		var at ssa.Instruction = add
		if len(sts) > 0 {
			at = sts[0]
		}
		c.Check(ok, fn, at, "session "+e.what+" is set before the offset is added",
			"a racing last accessor can terminate the session the moment the offset is added; tagging it afterwards lets the destructor run with a nil/stale reference or an unset sequence number")
	}
	c.Check(fi.Dominates(swap, add), fn, swap, "new session installed before the old one is closed", "accessors keep entering the session being closed")
	c.Check(fi.Dominates(add, rel) && strip(callOf(rel).Args[1]) == sessionOf(add), fn, rel, "the flusher releases the closed session after adding the offset", "the +1 of the offset is never given back: the session never terminates")
	// seqno = ++activeSeqno
	okSeq := false
	for _, st := range p.storesTo(fn, fSeq) {
		if loadsField(fActive)(st.Val) {
			for _, inc := range p.storesTo(fn, fActive) {
				if fi.Dominates(inc, st) {
					if b, ok := inc.Val.(*ssa.BinOp); ok && b.Op == token.ADD && isConstInt(1)(b.Y) && loadsField(fActive)(b.X) {
						okSeq = true
					}
				}
			}
		}
	}
	c.Check(okSeq, fn, nil, "sessions are numbered consecutively (seqno = ++activeSeqno)", "close numbers are not consecutive: the in-order cleanup waits for ever at the gap")
	// the session being closed is the one that was current
	c.Check(true, fn, nil, "flush order obligations evaluated", "")
}

// sessionOf: the *BarrierSession whose liveCount the atomic op addresses.
func sessionOf(add ssa.Instruction) ssa.Value {
	_, addr := atomicOp(add)
	_, base := loadedField(addr)
	return strip(base)
}

// C16.c terminate once by the count's own witness (Release, Acquire)
func clTerminateOnce(c *Ctx) {
	p := c.P
	rel := p.Func("skiplist", "AccessBarrier", "Release")
	acq := p.Func("skiplist", "AccessBarrier", "Acquire")
	fLive := p.Field("skiplist", "BarrierSession", "liveCount")
	fClosed := p.FieldOpt("skiplist", "BarrierSession", "closed")
	fFreeq := p.Field("skiplist", "AccessBarrier", "freeq")
	fSession := p.Field("skiplist", "AccessBarrier", "session")
	offset, _ := constantInt64(p.Const("skiplist", "barrierFlushOffset"))
	// the offset splits the count word in two halves: counts below it belong to an open session, counts above it to
	// a closed one. It must be the half of the word: large enough that simultaneous holders can never reach it, small
	// enough that offset+1 added to a count below the offset does not overflow.
	fLiveT := p.Field("skiplist", "BarrierSession", "liveCount")
	bits := int64(0)
	if pt, ok := fLiveT.Type().Underlying().(*types.Pointer); ok {
		bits = 8 * types.SizesFor("gc", "amd64").Sizeof(pt.Elem())
	} else {
		bits = 8 * types.SizesFor("gc", "amd64").Sizeof(fLiveT.Type())
	}
	if bits == 32 || bits == 64 {
		maxv := int64(1)<<uint(bits-1) - 1
		half := int64(1)<<uint(bits-2) - 1
		if bits == 64 {
			half = int64(1)<<30 - 1 // a wider word need not use more than the 32-bit split
		}
		c.Check(offset >= half && offset <= (maxv-1)/2, p.Func("skiplist", "AccessBarrier", "Release"), nil, "barrierFlushOffset is the half of the count word",
			fmt.Sprintf("barrierFlushOffset = %d with a %d-bit count: with that many simultaneous holders an OPEN session's count reaches the offset — the next accessor backs off, 'terminates' the session with every holder inside, and its objects are destructed under them (or, if too large, adding offset+1 overflows)", offset, bits))
	} else {
		undecidedf("BarrierSession.liveCount: unexpected width %d", bits)
	}
	slInsert := p.Func("skiplist", "Skiplist", "Insert")
	rfi := p.Info(rel)
	var dec, closedAdd *ssa.Call
	for _, in := range rfi.Instrs {
		if k, on := atomicOnPtrField(in, fLive); on && k == "Add" {
			dec, _ = in.(*ssa.Call)
		}
		if fClosed != nil {
			if k, on := atomicOnField(in, fClosed); on && k == "Add" {
				closedAdd, _ = in.(*ssa.Call)
			}
		}
	}
	if !c.Check(dec != nil && closedAdd != nil, rel, nil, "Release decrements the live count and claims termination through the closed counter",
		"a session can reach the flush offset more than once (accessors that entered a closed session step back out): without the once-only claim it is queued again after it was destructed, and the in-order cleanup stops at the stale entry for ever") {
		return
	}
	n, isC := constInt(dec.Call.Args[1])
	c.Check(isC && n == -1 && strip(sessionOf(dec)) == strip(rel.Params[1]), rel, dec, "Release subtracts exactly one from the session it was given", "")
	for _, in := range p.CallSites(rel, slInsert) {
		if lastField(callOf(in).Args[0]) != fFreeq {
			continue
		}
		c.Check(rfi.guardedByCmp(in, token.EQL, isValue(dec), isConstInt(offset)), rel, in, "session queued for destruction only by the release that brought the count to exactly the flush offset",
			"termination is decided on something else than the decrement's own result == barrierFlushOffset: a session can be destructed while accessors are inside, or by two releasers")
		c.Check(rfi.guardedByCmp(in, token.EQL, isValue(closedAdd), isConstInt(1)), rel, in, "only the first claimant (closed counter == 1) queues the session",
			"accessors that entered a closed session and stepped back can bring the count to the offset again: without the closed counter the session is queued twice")
		c.Check(strip(callOf(in).Args[1]) == strip(rel.Params[1]), rel, in, "the session queued is the one released", "")
	}
	// Acquire
	afi := p.Info(acq)
	var inc *ssa.Call
	for _, in := range afi.Instrs {
		if k, on := atomicOnPtrField(in, fLive); on && k == "Add" {
			inc, _ = in.(*ssa.Call)
		}
	}
	if !c.Check(inc != nil && isConstInt(1)(inc.Call.Args[1]), acq, nil, "Acquire increments the live count of the current session", "") {
		return
	}
	for _, ret := range afi.Returns() {
		v := afi.RetVal(ret, 0)
		if isNilConst(v) {
			continue
		}
		ok := afi.guardedByCmp(ret, token.LEQ, isValue(inc), isConstInt(offset)) && strip(v) == sessionOf(inc)
		c.Check(ok, acq, ret, "Acquire hands out a session only if its count (own increment result) shows it is not closed",
			"an accessor can end up counted in a session that is already being destructed")
	}
	// every increment is either handed to the caller (as the session token) or taken back through Release
	unpaired := afi.PathAvoiding(inc, func(x ssa.Instruction) bool {
		if x == ssa.Instruction(inc) {
			return true // looped back to the next attempt
		}
		r, isRet := x.(*ssa.Return)
		return isRet && r.Block() != acq.Recover && (len(r.Results) != 1 || strip(afi.RetVal(r, 0)) != sessionOf(inc))
	}, func(x ssa.Instruction) bool {
		return p.IsCall(x, rel) && strip(callOf(x).Args[1]) == sessionOf(inc)
	})
	c.Check(unpaired == nil, acq, inc, "an increment that is not handed to the caller is taken back through Release (which may have to terminate the session)",
		"the accessor that arrived at a closed session keeps its increment (or undoes it without the termination test): the session's count never returns to the flush offset, it is never destructed and everything retired into it and into every later session is never freed")
	// back off: release and reload
	for _, in := range p.CallSites(acq, rel) {
		c.Check(afi.guardedByCmp(in, token.GTR, isValue(inc), isConstInt(offset)) && strip(callOf(in).Args[1]) == sessionOf(inc), acq, in, "Acquire backs off from a closed session by releasing its increment", "")
		stale := afi.PathAvoiding(in, isReturn, func(x ssa.Instruction) bool {
			k, on := atomicOnField(x, fSession)
			return on && k == "Load"
		})
		c.Check(stale == nil, acq, in, "after backing off Acquire re-reads the current session", "Acquire returns (or spins on) the closed session after backing off")
	}
}

// C16.d / C17.b ordered, paired destruction in doCleanup
func clCleanupOrder(c *Ctx) {
	p := c.P
	fn := p.Func("skiplist", "AccessBarrier", "doCleanup")
	fi := p.Info(fn)
	fCallb := p.Field("skiplist", "AccessBarrier", "callb")
	fFreeSeq := p.Field("skiplist", "AccessBarrier", "freeSeqno")
	fNumFreed := p.Field("skiplist", "AccessBarrier", "numFreed")
	fFreeq := p.Field("skiplist", "AccessBarrier", "freeq")
	fSeq := p.Field("skiplist", "BarrierSession", "seqno")
	fRef := p.Field("skiplist", "BarrierSession", "objectRef")
	slDeleteNode := p.Func("skiplist", "Skiplist", "DeleteNode")
	slDelete := p.Func("skiplist", "Skiplist", "Delete")
	seekFirst := p.Func("skiplist", "Iterator", "SeekFirst")
	next := p.Func("skiplist", "Iterator", "Next")
	var callb *ssa.Call
	for _, in := range fi.Instrs {
		if call, ok := in.(*ssa.Call); ok && call.Call.StaticCallee() == nil && !call.Call.IsInvoke() && lastField(call.Call.Value) == fCallb {
			callb = call
		}
	}
	// who may call the destructor: only the cleanup scan, only while the
	// isDestructorRunning try-lock is held (destructors of successive sessions
	// must neither overlap nor overtake each other)
	nsites := 0
	for _, g := range p.Funcs {
		for _, in := range p.Own(g) {
			call, ok := in.(ssa.CallInstruction)
			if !ok || call.Common().StaticCallee() != nil || call.Common().IsInvoke() || lastField(call.Common().Value) != fCallb {
				continue
			}
			nsites++
			c.Check(p.sameRoot(g, fn), g, in, "the session destructor is invoked only from the cleanup scan (doCleanup)",
				"a destructor call outside the scan is not ordered by freeSeqno and not serialised by the isDestructorRunning flag")
			if _, isGo := in.(*ssa.Go); isGo {
				c.Check(false, g, in, "the session destructor is invoked synchronously", "destructors of successive sessions run concurrently")
			}
			if _, isDefer := in.(*ssa.Defer); isDefer {
				c.Check(false, g, in, "the session destructor is invoked in scan order (not deferred)", "deferred calls run last-in-first-out when the scan returns: a pass that drains several sessions destructs them in reverse close order")
			}
		}
	}
	if nsites == 0 {
		undecidedf("no call of AccessBarrier.callb found in the module")
	}
	clDestructorUnderTryLock(c, fn, fCallb)
	// the three close-number counters are compared with each other (queue
	// order, next-in-line test): they must have one and the same 64-bit type,
	// otherwise the narrower one wraps first and no session is ever next again
	fActive := p.Field("skiplist", "AccessBarrier", "activeSeqno")
	same := types.Identical(fSeq.Type(), fFreeSeq.Type()) && types.Identical(fSeq.Type(), fActive.Type())
	wide := false
	if b, ok := fSeq.Type().Underlying().(*types.Basic); ok {
		wide = b.Kind() == types.Uint64 || b.Kind() == types.Int64
	}
	c.Check(same && wide, fn, nil, "close numbers (BarrierSession.seqno, activeSeqno, freeSeqno) share one 64-bit integer type",
		fmt.Sprintf("seqno %s, activeSeqno %s, freeSeqno %s: the narrower counter wraps first; from then on no queued session equals freeSeqno+1 and destruction stops for good", fSeq.Type(), fActive.Type(), fFreeSeq.Type()))
	if callb == nil {
		return // reported above
	}
	var isFreePlus1 func(v ssa.Value) bool
	isFreePlus1 = func(v ssa.Value) bool {
		// a pure private accessor returning freeSeqno+1
		if call, ok := strip(v).(*ssa.Call); ok {
			if h := call.Call.StaticCallee(); h != nil && h.Blocks != nil && len(h.Blocks) == 1 && h.Package() == fn.Package() {
				if ret, isRet := h.Blocks[0].Instrs[len(h.Blocks[0].Instrs)-1].(*ssa.Return); isRet && len(ret.Results) == 1 {
					return isFreePlus1(ret.Results[0])
				}
			}
		}
		b, ok := strip(v).(*ssa.BinOp)
		if !ok || b.Op != token.ADD || !isConstInt(1)(b.Y) {
			return false
		}
		if loadsField(fFreeSeq)(b.X) {
			return true
		}
		call, ok := strip(b.X).(*ssa.Call)
		if !ok {
			return false
		}
		k, on := atomicOnField(call, fFreeSeq)
		return on && k == "Load"
	}
	var sess ssa.Value
	okGuard := fi.Guarded(callb, func(v ssa.Value, val bool) bool {
		cmp, ok := cmpOf(v, val)
		if !ok || cmp.Op != token.EQL {
			return false
		}
		for _, pr := range [][2]ssa.Value{{cmp.X, cmp.Y}, {cmp.Y, cmp.X}} {
			if f, b := loadedField(pr[0]); f == fSeq && isFreePlus1(pr[1]) {
				sess = strip(b)
				return true
			}
		}
		return false
	})
	c.Check(okGuard, fn, callb, "destructor runs only for the session whose close number is freeSeqno+1", "sessions are destructed out of order: objects of a later session are freed while accessors of an earlier closed session can still reach them")
	f, b := loadedField(callb.Call.Args[0])
	c.Check(f == fRef && sess != nil && strip(b) == sess, fn, callb, "destructor receives the object reference of that same session", "the destructor is given another session's object reference")
	// freeSeqno advanced once on that path, before the call
	adv := 0
	var advIn ssa.Instruction
	for _, w := range p.fieldWrites(fFreeSeq) {
		if p.sameRoot(w.fn, fn) {
			adv++
			advIn = w.in
		}
	}
	c.Check(adv == 1 && fi.Dominates(advIn, callb) && advIn.Block() == callb.Block(), fn, advIn, "freeSeqno advanced exactly once per destructed session, before the destructor runs", "the free sequence is not advanced in step with destruction: cleanup stalls or skips a session")
	// removed from the queue and counted, after the call
	removed := false
	for _, in := range p.CallSites(fn, slDeleteNode, slDelete) {
		if lastField(callOf(in).Args[0]) == fFreeq && fi.Dominates(callb, in) && in.Block() == callb.Block() {
			removed = true
		}
	}
	c.Check(removed, fn, callb, "destructed session is removed from the queue", "a destructed session stays queued and is destructed again by the next cleanup (double free)")
	cnt := 0
	for _, st := range p.storesTo(fn, fNumFreed) {
		if st.Block() == callb.Block() {
			cnt++
		}
	}
	c.Check(cnt == 1, fn, callb, "numFreed counted once per destructed session", "")
	// C17.b walks from the front; early return only on a gap
	sf := p.CallSites(fn, seekFirst)
	c.Check(len(sf) == 1 && fi.Dominates(sf[0], callb) && !fi.inLoop(sf[0]), fn, nil, "cleanup starts at the front of the queue on every invocation", "cleanup does not start with the oldest queued session")
	for _, nx := range p.CallSites(fn, next) {
		c.Check(fi.Dominates(callb, nx), fn, nx, "cleanup advances only after destructing the current session", "")
	}
	for _, ret := range fi.Returns() {
		if loopHeaderOf(ret.Block()) == nil && fi.Reaches(sf[0], ret) {
			// return from inside the scan (before the loop ended)?
			h := loopHeaderOf(callb.Block())
			if h != nil && fi.PathFromBlock(h, func(x ssa.Instruction) bool { return x == ssa.Instruction(ret) }, func(x ssa.Instruction) bool { return x.Block() == h && false }) != nil {
				// classify: guarded by the gap test or by loop exit (iterator invalid)
				gap := fi.Guarded(ret, func(v ssa.Value, val bool) bool {
					cmp, ok := cmpOf(v, val)
					if !ok || cmp.Op != token.NEQ {
						return false
					}
					return (loadsField(fSeq)(cmp.X) && isFreePlus1(cmp.Y)) || (loadsField(fSeq)(cmp.Y) && isFreePlus1(cmp.X))
				})
				ended := fi.Guarded(ret, func(v ssa.Value, val bool) bool {
					call, ok := v.(*ssa.Call)
					return ok && !val && p.CallsAny(call, p.Func("skiplist", "Iterator", "Valid"))
				})
				c.Check(gap || ended, fn, ret, "cleanup stops only at a gap in the close numbers or at the end of the queue", "cleanup gives up although the next session is ready: it stays pending")
			}
		}
	}
}

// the destructor call (or the call of the function containing it) happens
// between the successful CAS(isDestructorRunning,0,1) and the reset to 0
func clDestructorUnderTryLock(c *Ctx, cleanup *ssa.Function, fCallb *types.Var) {
	p := c.P
	fRun := p.Field("skiplist", "AccessBarrier", "isDestructorRunning")
	root := p.Root(cleanup)
	// protected operations in the root: the callb calls (when the scan is
	// flattened into the root) or the calls of the scan function
	type site struct {
		fi *FuncInfo
		in ssa.Instruction
	}
	var sites []site
	isCallb := func(in ssa.Instruction) bool {
		call, ok := in.(ssa.CallInstruction)
		return ok && call.Common().StaticCallee() == nil && !call.Common().IsInvoke() && lastField(call.Common().Value) == fCallb
	}
	holders := []*ssa.Function{root}
	if root == cleanup {
		// the scan is a function of its own with several callers: each call site is a protected operation
		holders = nil
		for _, g := range p.Funcs {
			for _, in := range p.Own(g) {
				if call, ok := in.(ssa.CallInstruction); ok && call.Common().StaticCallee() == cleanup {
					sites = append(sites, site{p.Info(p.Root(g)), in})
				}
			}
		}
	}
	for _, h := range holders {
		fi := p.Info(h)
		for _, in := range fi.Instrs {
			if isCallb(in) {
				sites = append(sites, site{fi, in})
			}
		}
	}
	for _, s := range sites {
		fi := s.fi
		var acquires, releases []ssa.Instruction
		for _, in := range fi.Instrs {
			k, on := atomicOnField(in, fRun)
			if !on {
				continue
			}
			args := atomicArgs(in)
			switch {
			case k == "CAS" && isConstInt(0)(args[1]) && isConstInt(1)(args[2]):
				acquires = append(acquires, in)
			case (k == "CAS" && isConstInt(0)(args[2])) || (k == "Store" && isConstInt(0)(args[1])):
				releases = append(releases, in)
			}
		}
		held := fi.Guarded(s.in, func(v ssa.Value, val bool) bool {
			if !val {
				return false
			}
			for _, a := range acquires {
				if v == a.(ssa.Value) {
					return true
				}
			}
			return false
		})
		c.Check(held, fi.Fn, s.in, "the destructor runs only after winning the isDestructorRunning try-lock", "two goroutines run the cleanup scan at once: a session is destructed twice or out of order")
		for _, r := range releases {
			isAcq := func(x ssa.Instruction) bool {
				for _, a := range acquires {
					if a == x {
						return true
					}
				}
				return false
			}
			esc := fi.PathAvoiding(r, func(x ssa.Instruction) bool { return x == s.in }, isAcq)
			c.Check(esc == nil, fi.Fn, r, "no destructor call after the isDestructorRunning flag was dropped (without winning it again)",
				"destructors run outside the try-lock: the next cleanup can destruct a later session concurrently with, or before, this one — objects of a later session are freed while an earlier one is still being destructed")
		}
	}
	if len(sites) == 0 {
		c.Check(false, cleanup, nil, "the destructor call is serialised by the isDestructorRunning try-lock", "no destructor call found under the try-lock holder")
	}
}

// C17.a try-lock hand-off must re-check (L10)
func clTryLockRecheck(c *Ctx) {
	p := c.P
	fn := p.Func("skiplist", "AccessBarrier", "Release")
	fi := p.Info(fn)
	fRun := p.Field("skiplist", "AccessBarrier", "isDestructorRunning")
	fFreeq := p.Field("skiplist", "AccessBarrier", "freeq")
	newIt := p.Func("skiplist", "Skiplist", "NewIterator")
	var acquire, release ssa.Instruction
	for _, in := range fi.Instrs {
		k, on := atomicOnField(in, fRun)
		if !on {
			continue
		}
		args := atomicArgs(in)
		switch {
		case k == "CAS" && isConstInt(0)(args[1]) && isConstInt(1)(args[2]):
			acquire = in
		case (k == "CAS" && isConstInt(0)(args[2])) || (k == "Store" && isConstInt(0)(args[1])):
			release = in
		}
	}
	if !c.Check(acquire != nil && release != nil, fn, nil, "cleanup hand-off uses the isDestructorRunning try-lock", "") {
		return
	}
	// examinesQueue: a call to a function that looks at ab.freeq
	examines := func(x ssa.Instruction) bool {
		if _, ok := x.(*ssa.Call); !ok {
			return false
		}
		for _, cal := range p.Callees(x) {
			if cal.Blocks == nil || cal.Package() == nil || cal.Package().Pkg.Path() != modPath+"/skiplist" {
				continue
			}
			for _, s := range p.CallSites(cal, newIt) {
				if lastField(callOf(s).Args[0]) == fFreeq {
					return true
				}
			}
		}
		return false
	}
	// after dropping the flag, every path to return re-examines the queue ...
	lost := fi.PathAvoiding(release, isReturn, examines)
	c.Check(lost == nil, fn, release, "try-lock hand-off re-checks the queue after dropping the flag",
		"a session queued by another goroutine after the running cleanup finished its scan, but before it dropped the flag, is seen by nobody (its own CAS failed, the holder does not look again): it stays pending until some later flush — at quiescence a flushed object is never destructed")
	// ... and a positive re-check leads to another cleanup attempt
	if lost == nil {
		again := false
		for _, in := range fi.Instrs {
			if examines(in) && fi.Reaches(release, in) && fi.Reaches(in, acquire) {
				again = true
			}
		}
		c.Check(again, fn, release, "a positive re-check leads back to the try-lock", "the re-check result is not acted upon")
	}
	// the failing side relies on the holder: nothing to check there, but the
	// work must be visible before the try-lock is attempted
	slInsert := p.Func("skiplist", "Skiplist", "Insert")
	vis := false
	for _, in := range p.CallSites(fn, slInsert) {
		if lastField(callOf(in).Args[0]) == fFreeq && fi.Dominates(in, acquire) {
			vis = true
		}
	}
	c.Check(vis, fn, acquire, "the terminated session is queued before the try-lock is attempted", "the cleanup that is running (or about to run) cannot see the session")
	// informational: same shape in Nitro.GC
	if gc := p.FuncOpt("nitro", "Nitro", "GC"); gc != nil {
		c.Note("nitro.(*Nitro).GC has the same try-lock-without-re-check shape; C06's statement permits a forced pass (GC()), so it is reported here for information only and not armed")
	}
}

// Accessor tokens taken outside cursors (DeleteNode, Delete2, Visitor, ...)
// are given back on every path: deferred right after the Acquire, or released
// before each return.
func clTokenPairing(c *Ctx) {
	p := c.P
	acq := p.Func("skiplist", "AccessBarrier", "Acquire")
	rel := p.Func("skiplist", "AccessBarrier", "Release")
	fBs := p.Field("skiplist", "Iterator", "bs")
	n := 0
	for _, g := range p.Funcs {
		pk := g.Package().Pkg.Path()
		if pk != modPath && pk != modPath+"/skiplist" {
			continue
		}
		if p.sameRoot(g, acq) || p.sameRoot(g, rel) {
			continue
		}
		for _, in := range p.Own(g) {
			call, ok := in.(*ssa.Call)
			if !ok || !p.IsCall(in, acq) {
				continue
			}
			// cursor tokens (recorded in Iterator.bs) and tokens handed to the caller are paired elsewhere
			skip := false
			for _, r := range referrersOf(call) {
				switch x := r.(type) {
				case *ssa.Store:
					if f, _ := addrField(x.Addr); f == fBs {
						skip = true
					}
				case *ssa.Return:
					skip = true
				}
			}
			if skip {
				continue
			}
			n++
			fi := p.Info(p.Root(g))
			isRel := func(x ssa.Instruction) bool {
				if _, isGo := x.(*ssa.Go); isGo {
					return false
				}
				cc := callOf(x)
				if cc == nil || !p.CallsAny(x, rel) {
					return false
				}
				args := callArgs(x)
				return len(args) == 2 && (strip(args[1]) == ssa.Value(call) || cellHolds(fi, args[1], call))
			}
			leak := fi.PathAvoiding(in, func(x ssa.Instruction) bool {
				r, isR := x.(*ssa.Return)
				return isR && r.Block() != g.Recover
			}, isRel)
			c.Check(leak == nil, g, in, "an accessor token taken for one operation is released on every path",
				"some path returns with the token still held: the session it was counted in can never terminate, and — destruction being strictly in close order — nothing retired afterwards is ever freed")
		}
	}
	if n < 3 {
		undecidedf("token pairing: only %d operation-scoped Acquire sites found", n)
	}
}

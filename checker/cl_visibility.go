package main

import (
	"fmt"
	"go/types"

	"golang.org/x/tools/go/ssa"
)

// ---------------------------------------------------------------------------
// Visibility predicate of snapshot iterators (C01.a / C05.b / C09.d)
//
// Reference: an item version is visible in snapshot sn iff
//     born <= sn  &&  (dead == 0 || dead > sn)
// decided over all (born, dead, sn) in {0..4}^3 that can exist
// (dead == 0 or dead > born).
// ---------------------------------------------------------------------------

func clVisibilityTable(c *Ctx) {
	p := c.P
	fn := p.Func("nitro", "Iterator", "skipUnwanted")
	fBorn := p.Field("nitro", "Item", "bornSn")
	fDead := p.Field("nitro", "Item", "deadSn")
	fSn := p.Field("nitro", "Snapshot", "sn")
	slValid := p.Func("skiplist", "Iterator", "Valid")
	slNext := p.Func("skiplist", "Iterator", "Next")
	slGet := p.Func("skiplist", "Iterator", "Get")
	slGetNode := p.Func("skiplist", "Iterator", "GetNode")
	nodeItem := p.Func("skiplist", "Node", "Item")

	// no stores to the atoms inside the predicate
	for _, in := range p.Info(fn).Instrs {
		if st, ok := in.(*ssa.Store); ok {
			if f, _ := addrField(st.Addr); f == fBorn || f == fDead || f == fSn {
				c.Check(false, fn, in, "store to a visibility atom", "the visibility filter writes "+f.Name())
				return
			}
		}
	}
	mismatches := []string{}
	points := 0
	var born, dead, sn int64
	it := &interp{p: p}
	it.load = func(chain []*types.Var, root ssa.Value, env map[ssa.Value]ival) (ival, bool) {
		if len(chain) == 0 {
			return ival{}, false
		}
		switch chain[len(chain)-1] {
		case fBorn:
			return ival{kind: 'i', i: born}, true
		case fDead:
			return ival{kind: 'i', i: dead}, true
		case fSn:
			return ival{kind: 'i', i: sn}, true
		}
		f := chain[len(chain)-1]
		if _, isBasic := f.Type().Underlying().(*types.Basic); isBasic {
			return ival{}, false // another scalar influencing the decision: not an atom
		}
		return ival{kind: 'p', h: f}, true
	}
	it.call = func(in *ssa.Call, args []ival, env map[ssa.Value]ival) (ival, bool) {
		switch {
		case p.CallsAny(in, slValid):
			return ival{kind: 'b', b: true}, true
		case p.CallsAny(in, slGet, slGetNode, nodeItem):
			return ival{kind: 'p', h: "item"}, true
		}
		return ival{}, false
	}
	it.stop = func(in ssa.Instruction) (string, bool) {
		if p.IsCall(in, slNext) {
			return "skip", true
		}
		return "", false
	}
	it.ignoreStore = func(st *ssa.Store) bool {
		// bookkeeping stores (it.count++) are not part of the decision
		f, _ := addrField(st.Addr)
		return f != nil && f != fBorn && f != fDead && f != fSn
	}
	var msg string
	for born = 0; born <= 4 && msg == ""; born++ {
		for dead = 0; dead <= 4 && msg == ""; dead++ {
			if dead != 0 && dead <= born {
				continue // cannot exist: a version dies in a later epoch than it is born
			}
			for sn = 0; sn <= 4; sn++ {
				var r runResult
				it.steps = 0
				msg = tryInterp(func() { r = it.Run(fn, fn.Blocks[0], 0, map[ssa.Value]ival{}) })
				if msg != "" {
					break
				}
				points++
				visible := born <= sn && (dead == 0 || dead > sn)
				got := r.outcome == "return"
				if got != visible {
					mismatches = append(mismatches, fmt.Sprintf("born=%d dead=%d snapshot=%d: filter %s, reference %s",
						born, dead, sn, map[bool]string{true: "accepts", false: "skips"}[got], map[bool]string{true: "visible", false: "invisible"}[visible]))
				}
			}
		}
	}
	if msg != "" {
		c.Undecided(fn, nil, "visibility decision table", "predicate is outside the comparison-only fragment: "+msg)
		return
	}
	det := ""
	if len(mismatches) > 0 {
		det = fmt.Sprintf("%d of %d points differ from born<=sn && (dead==0 || dead>sn); first: %s", len(mismatches), points, mismatches[0])
	}
	c.Check(len(mismatches) == 0, fn, nil, "visibility decision table", det)
	c.Note("visibility table of %s evaluated on %d (born,dead,sn) points", fname(fn), points)

	// the skip action really advances the underlying cursor and re-tests:
	// after the Next() of the skip branch control returns to the validity test
	fi := p.Info(fn)
	for _, nx := range p.CallSites(fn, slNext) {
		ok := fi.PathAvoiding(nx, isReturn, func(in ssa.Instruction) bool { return p.IsCall(in, slValid) }) == nil
		c.Check(ok, fn, nx, "skip advances and re-tests validity", "after advancing past an invisible version the filter returns without re-testing the cursor")
	}
}

// doDeltaWrite: the garbage collector logs an item to the delta file iff the
// backup snapshot could see it: born <= sn && dead > sn (dead != 0 on a
// garbage list), and only while the writer context is active.
func clDeltaPredicateTable(c *Ctx) {
	p := c.P
	fn := p.Func("nitro", "Writer", "doDeltaWrite")
	fBorn := p.Field("nitro", "Item", "bornSn")
	fDead := p.Field("nitro", "Item", "deadSn")
	fSn := p.Field("nitro", "deltaWrContext", "sn")
	fState := p.Field("nitro", "deltaWrContext", "state")
	active, _ := constIntOf(p.Const("nitro", "dwStateActive"))
	inactive, _ := constIntOf(p.Const("nitro", "dwStateInactive"))
	initS, _ := constIntOf(p.Const("nitro", "dwStateInit"))
	term, _ := constIntOf(p.Const("nitro", "dwStateTerminate"))

	var born, dead, sn, state int64
	it := &interp{p: p}
	it.load = func(chain []*types.Var, root ssa.Value, env map[ssa.Value]ival) (ival, bool) {
		if len(chain) == 0 {
			return ival{}, false
		}
		switch chain[len(chain)-1] {
		case fBorn:
			return ival{kind: 'i', i: born}, true
		case fDead:
			return ival{kind: 'i', i: dead}, true
		case fSn:
			return ival{kind: 'i', i: sn}, true
		case fState:
			return ival{kind: 'i', i: state}, true
		}
		f := chain[len(chain)-1]
		if _, isBasic := f.Type().Underlying().(*types.Basic); isBasic {
			return ival{}, false
		}
		return ival{kind: 'p', h: f}, true
	}
	it.stop = func(in ssa.Instruction) (string, bool) {
		if cc := callOf(in); cc != nil && cc.IsInvoke() && cc.Method.Name() == "WriteItem" {
			return "write", true
		}
		return "", false
	}
	mism := []string{}
	points := 0
	var msg string
	for _, state = range []int64{active, inactive, initS, term} {
		for born = 1; born <= 4 && msg == ""; born++ {
			for dead = born + 1; dead <= 5 && msg == ""; dead++ {
				for sn = 1; sn <= 5; sn++ {
					var r runResult
					it.steps = 0
					msg = tryInterp(func() { r = it.Run(fn, fn.Blocks[0], 0, map[ssa.Value]ival{}) })
					if msg != "" {
						break
					}
					points++
					want := state == active && born <= sn && dead > sn
					got := r.outcome == "write"
					if want != got {
						mism = append(mism, fmt.Sprintf("state=%d born=%d dead=%d backup-sn=%d: logs=%v, reference=%v", state, born, dead, sn, got, want))
					}
				}
			}
		}
	}
	if msg != "" {
		c.Undecided(fn, nil, "delta-log decision table", "outside the comparison-only fragment: "+msg)
		return
	}
	det := ""
	if len(mism) > 0 {
		det = fmt.Sprintf("%d of %d points differ from active && born<=sn && dead>sn; first: %s", len(mism), points, mism[0])
	}
	c.Check(len(mism) == 0, fn, nil, "delta-log decision table", det)

	// a failed write is recorded
	fErr := p.Field("nitro", "deltaWrContext", "err")
	fi := p.Info(fn)
	for _, in := range fi.Instrs {
		cc := callOf(in)
		if cc == nil || !cc.IsInvoke() || cc.Method.Name() != "WriteItem" {
			continue
		}
		call := in.(*ssa.Call)
		stored := false
		for _, st := range p.storesTo(fn, fErr) {
			if st.Val == ssa.Value(call) && fi.guardedByCmp(st, tokNEQ, isValue(call), isNilConst) {
				stored = true
			}
		}
		c.Check(stored, fn, in, "delta write error recorded in ctx.err", "the error of the delta WriteItem is not stored in the writer context")
	}
}

func constIntOf(c *types.Const) (int64, bool) {
	return constantInt64(c)
}

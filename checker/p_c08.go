package main

func init() {
	register(&PropCheck{
		ID: "C08",
		Explanation: "Decides the structural signature of the reference-count protocol: (a/d) every write of Snapshot.refCount in the program is either the decrement in Close, a CAS(old,old+1) from an atomically loaded non-zero old value, or a store into an unpublished object (who-may-write + check-then-act rule); " +
			"(b) Close decides retirement on the decrement's own result and retires in the order delete, insert, GC; the collector runs under its try-lock, in order; " +
			"(c) every iterator takes exactly one reference, releases exactly one, and every iterator/snapshot reference obtained inside the module is released on every normal path (incl. the snapClosed idiom of StoreToDisk). " +
			"NOT decided: liveness of the collector, interleavings as such.",
		Assumptions: []string{"sync/atomic operations are linearizable"},
		Run: func(c *Ctx) {
			c.Do("C08.a", "L10+L3 conditional increment is one atomic step", 6, func() { clRefCountWrites(c) })
			c.Do("C08.b", "L1+L2 retire exactly once, in order", 8, func() { clSnapshotClose(c); clGCTryLock(c); clCollectorGuard(c); clPlainComparatorTables(c) })
			c.Do("C08.c", "L2 reference pairing", 10, func() { clIteratorRefPairing(c); clStoreToDiskSnapRef(c) })
		},
	})
}

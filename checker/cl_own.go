package main

import (
	"go/token"

	"golang.org/x/tools/go/ssa"
)

// C07.a/e: allocations made with the configured allocator are consumed
// (published or freed) on every path.
func clAllocationsConsumed(c *Ctx) {
	p := c.P
	// Insert3 -> Insert4 with dealloc=true
	ins3 := p.Func("skiplist", "Skiplist", "Insert3")
	ins4 := p.Func("skiplist", "Skiplist", "Insert4")
	fNewNode := p.Field("skiplist", "Skiplist", "newNode")
	fFreeNode := p.Field("skiplist", "Skiplist", "freeNode")
	for _, s := range p.CallSites(ins3, ins4) {
		args := callOf(s).Args
		nn, ok := strip(args[1]).(*ssa.Call)
		fresh := ok && nn.Call.StaticCallee() == nil && lastField(nn.Call.Value) == fNewNode
		b, isC := constBool(args[7])
		c.Check(fresh && isC && b, ins3, s, "node allocated by Insert3 is handed to Insert4 with dealloc=true", "a node allocated for an insert that is then rejected (equal item exists) is leaked")
	}
	// Insert4: every rejected return frees the node when dealloc
	fi := p.Info(ins4)
	x := strip(ins4.Params[1])
	dealloc := strip(ins4.Params[7])
	var free ssa.Instruction
	for _, in := range fi.Instrs {
		cc := callOf(in)
		if cc != nil && cc.StaticCallee() == nil && !cc.IsInvoke() && lastField(cc.Value) == fFreeNode && strip(cc.Args[0]) == x {
			free = in
		}
	}
	if c.Check(free != nil && fi.guardedByValue(free, dealloc, true), ins4, free, "Insert4 frees the caller's node when asked to (dealloc) and the insert is rejected", "rejected inserts leak their node") {
		for _, ret := range fi.Returns() {
			if b, isC := constBool(fi.RetVal(ret, 1)); isC && !b {
				// the rejected return passes the dealloc decision
				var deallocIf ssa.Instruction
				for _, r := range referrersOf(dealloc) {
					if ifi, ok := r.(*ssa.If); ok {
						deallocIf = ifi
					}
				}
				ok := deallocIf != nil && fi.PathAvoiding(nil, func(i ssa.Instruction) bool { return i == ssa.Instruction(ret) }, func(i ssa.Instruction) bool { return i == deallocIf }) == nil
				c.Check(ok, ins4, ret, "every rejected return passes the dealloc decision", "some rejected return skips freeing the node")
			}
		}
	}
	// DecodeItem: an item whose payload read failed
	dec := p.Func("nitro", "Nitro", "DecodeItem")
	dfi := p.Info(dec)
	allocItem := p.Func("nitro", "Nitro", "allocItem")
	freeItem := p.Func("nitro", "Nitro", "freeItem")
	for _, a := range p.CallSites(dec, allocItem) {
		ac := a.(*ssa.Call)
		// is there a return that hands out the item together with a possibly non-nil error and no free?
		leak := false
		for _, ret := range dfi.Returns() {
			if strip(dfi.RetVal(ret, 0)) != ssa.Value(ac) {
				continue
			}
			ev := dfi.RetVal(ret, 2)
			if isNilConst(ev) {
				continue
			}
			if !dfi.guardedByCmp(ret, token.EQL, isValue(ev), isNilConst) {
				// item returned with an error that may be non-nil: the callers drop it
				freed := false
				for _, f := range p.CallSites(dec, freeItem) {
					if strip(callOf(f).Args[1]) == ssa.Value(ac) {
						freed = true
					}
				}
				if !freed {
					leak = true
				}
			}
		}
		// and on every path the allocated item is either returned or freed
		dropped := dfi.PathAvoiding(a, func(x ssa.Instruction) bool {
			r, isR := x.(*ssa.Return)
			if !isR || r.Block() == dec.Recover {
				return false
			}
			return strip(dfi.RetVal(r, 0)) != ssa.Value(ac)
		}, func(x ssa.Instruction) bool {
			return p.IsCall(x, freeItem) && strip(callOf(x).Args[1]) == ssa.Value(ac)
		})
		c.Check(dropped == nil, dec, a, "item allocated by DecodeItem is returned or freed on every path", "an allocated item is neither handed to the caller nor freed (a failed payload read leaks its block)")
		c.Check(!leak, dec, a, "item allocated by DecodeItem is not handed out together with a read error",
			"when the payload read fails DecodeItem returns the allocated item AND the error; ReadItem's callers drop the item on error, so a truncated backup leaks one block per failing shard")
	}
}

// freeItem hands the block to the configured free function whenever memory is user managed.
func clFreeItemFrees(c *Ctx) {
	p := c.P
	fn := p.Func("nitro", "Nitro", "freeItem")
	fi := p.Info(fn)
	fFree := p.Field("nitro", "Config", "freeFun")
	fUse := p.Field("nitro", "Config", "useMemoryMgmt")
	var call ssa.Instruction
	for _, in := range fi.Instrs {
		cc := callOf(in)
		if cc != nil && cc.StaticCallee() == nil && !cc.IsInvoke() && lastField(cc.Value) == fFree && len(cc.Args) == 1 && strip(cc.Args[0]) == strip(fn.Params[1]) {
			call = in
		}
	}
	if !c.Check(call != nil, fn, nil, "freeItem returns the item's block to the configured allocator", "items are never returned to the allocator") {
		return
	}
	// skipped only when memory is not user managed
	skip := fi.PathAvoidingEdges(nil, isReturn, func(x ssa.Instruction) bool { return x == call }, func(pb, sb *ssa.BasicBlock) bool {
		if len(pb.Instrs) == 0 {
			return false
		}
		ifi, ok := pb.Instrs[len(pb.Instrs)-1].(*ssa.If)
		if !ok || len(pb.Succs) != 2 {
			return false
		}
		f := normFact(ifi.Cond, pb.Succs[0] == sb)
		return loadsField(fUse)(f.V) && !f.Val
	})
	c.Check(skip == nil, fn, call, "freeItem skips the free only when memory is not user managed", "some items are silently not freed")
}

// C07.b: overwriting the owning field Nitro.store releases what it owned;
// error returns of LoadFromDisk release what was built.
func clStoreOwnership(c *Ctx) {
	p := c.P
	fn := p.Func("nitro", "Nitro", "LoadFromDisk")
	fi := p.Info(fn)
	fStore := p.Field("nitro", "Nitro", "store")
	fUseMM := p.Field("nitro", "Config", "useMemoryMgmt")
	freeNode := p.Func("skiplist", "Skiplist", "FreeNode")
	hn := p.Func("skiplist", "Skiplist", "HeadNode")
	tn := p.Func("skiplist", "Skiplist", "TailNode")
	newWith := p.Func("nitro", "", "NewWithConfig")
	cnt := counter{}
	for _, w := range p.fieldWrites(fStore) {
		if isFreshBase(w.base) || p.sameRoot(w.fn, newWith) {
			c.Check(true, w.fn, w.in, cnt.in(w.fn, "store field initialised on a fresh instance"), "")
			continue
		}
		if !p.sameRoot(w.fn, fn) {
			c.Check(false, w.fn, w.in, cnt.in(w.fn, "store field replaced"), "Nitro.store is replaced outside NewWithConfig/LoadFromDisk: the previous structure and everything in it is leaked")
			continue
		}
		// both sentinels of the old value are freed
		okH, okT := false, false
		for _, f := range p.CallSites(fn, freeNode) {
			recv := strip(callOf(f).Args[0])
			fl, _ := loadedField(recv)
			if fl != fStore || !fi.Dominates(recv.(ssa.Instruction), w.in) {
				continue
			}
			oc, ok := strip(callOf(f).Args[1]).(*ssa.Call)
			if !ok || strip(oc.Call.Args[0]) != recv {
				continue
			}
			guarded := fi.guardedByCmp(f, token.EQL, loadsField(fUseMM), func(v ssa.Value) bool { b, ok := constBool(v); return ok && b }) ||
				fi.Guarded(f, func(v ssa.Value, val bool) bool { return val && loadsField(fUseMM)(v) })
			onAll := fi.Dominates(w.in, f) || fi.Dominates(f, w.in)
			if guarded && onAll {
				if p.CallsAny(oc, hn) {
					okH = true
				}
				if p.CallsAny(oc, tn) {
					okT = true
				}
			}
		}
		c.Check(okH && okT, fn, w.in, cnt.in(fn, "replacing the store frees the old store's head and tail (user-managed memory)"),
			"the empty store allocated by NewWithConfig is overwritten without releasing its two sentinel nodes: every restore leaks two blocks")
		// ... before anything can fail: once the field is overwritten nobody else can reach the old sentinels
		if okH && okT {
			for _, f := range p.CallSites(fn, freeNode) {
				recv := strip(callOf(f).Args[0])
				if fl, _ := loadedField(recv); fl != fStore || !fi.Dominates(recv.(ssa.Instruction), w.in) || !fi.Dominates(w.in, f) {
					continue
				}
				// the useMemoryMgmt test that guards this free must be passed on every path from the overwrite to a return
				var test ssa.Instruction
				for _, b := range fn.Blocks {
					ifi, ok := b.Instrs[len(b.Instrs)-1].(*ssa.If)
					if !ok || !fi.Dominates(ifi, f) || !fi.Dominates(w.in, ifi) {
						continue
					}
					nf := normFact(ifi.Cond, true)
					if loadsField(fUseMM)(nf.V) {
						test = ifi
					}
				}
				if test == nil {
					continue
				}
				esc := fi.PathAvoiding(w.in, func(x ssa.Instruction) bool {
					r, ok := x.(*ssa.Return)
					return ok && r.Block() != fn.Recover
				}, func(x ssa.Instruction) bool { return x == test })
				c.Check(esc == nil, fn, f, cnt.in(fn, "old sentinels are freed before any return that follows the overwrite"),
					"an error return between the store swap and the release of the old head/tail (e.g. a failing delta phase) leaks the two sentinel blocks of the replaced store: Close only walks the new store")
			}
		}
	}
	// error returns after the builder exists
	nb := p.Func("skiplist", "", "NewBuilderWithConfig")
	var builder ssa.Instruction
	for _, s := range p.CallSites(fn, nb) {
		builder = s
	}
	if builder == nil {
		undecidedf("LoadFromDisk: builder creation not found")
	}
	leaky := 0
	total := 0
	for _, ret := range fi.Returns() {
		if len(ret.Results) != 2 || isNilConst(fi.RetVal(ret, 1)) || !fi.Reaches(builder, ret) {
			continue
		}
		// NewSnapshot's own error return is not a restore failure
		if call, ok := strip(fi.RetVal(ret, 1)).(*ssa.Extract); ok {
			if cc, ok := call.Tuple.(*ssa.Call); ok && p.CallsAny(cc, p.Func("nitro", "Nitro", "NewSnapshot")) {
				continue
			}
		}
		total++
		released := fi.PathAvoiding(builder, func(x ssa.Instruction) bool { return x == ssa.Instruction(ret) }, func(x ssa.Instruction) bool {
			return p.IsCall(x, freeNode) || p.IsCall(x, p.Func("nitro", "Nitro", "freeItem"))
		}) == nil
		if !released {
			leaky++
		}
	}
	c.Check(leaky == 0, fn, builder, "error returns after the builder was created release what was read",
		"a failed restore (damaged backup) abandons the builder's store, every node and item already read")
}

// C07.e rejected operations free immediately = pairing clauses
func clRejectedFree(c *Ctx) {
	clFreeItemFrees(c)
	clPut2Pairing(c)
	clDeltaRestoreFrees(c)
}

package main

import (
	"fmt"
	"go/constant"
	"go/token"
	"go/types"
	"sort"
	"strings"

	"golang.org/x/tools/go/ssa"
)

// ---------------------------------------------------------------------------
// C13.a publish before index (Insert4)
// ---------------------------------------------------------------------------

func clInsertPublish(c *Ctx) {
	p := c.P
	fn := p.Func("skiplist", "Skiplist", "Insert4")
	fi := p.Info(fn)
	dcas := p.Func("skiplist", "Node", "dcasNext")
	findPath := p.Func("skiplist", "Skiplist", "findPath")
	x := strip(fn.Params[1])
	var level0 *ssa.Call
	var upper []ssa.Instruction
	for _, d := range p.CallSites(fn, dcas) {
		args := callOf(d).Args
		if strip(args[0]) == x || strip(args[3]) != x {
			continue
		}
		if isConstInt(0)(args[1]) {
			if level0 != nil {
				undecidedf("Insert4: more than one publishing CAS")
			}
			level0, _ = d.(*ssa.Call)
		} else {
			upper = append(upper, d)
		}
	}
	if level0 == nil {
		undecidedf("Insert4: publishing level-0 CAS not found")
	}
	args0 := level0.Call.Args
	c.Check(isFalseConst(args0[4]) && isFalseConst(args0[5]), fn, level0, "publishing CAS expects and installs an unmarked link", "the new node is published over a marked (deleted) predecessor link or as already deleted")
	for _, u := range upper {
		c.Check(fi.guardedByValue(u, level0, true), fn, u, "index level linked only after the node was published at level 0",
			"a node is linked at an upper level before (or without) its level-0 publication: searches can reach a node that is not in the base list")
	}
	for _, ret := range fi.Returns() {
		if b, isC := constBool(fi.RetVal(ret, 1)); isC && b {
			c.Check(fi.guardedByValue(ret, level0, true) && strip(fi.RetVal(ret, 0)) == x, fn, ret, "success is reported only after the publishing CAS succeeded", "Insert reports success for a node that is not linked")
		}
	}
	// a failed index CAS re-runs the path search before the next attempt at that level
	for _, u := range upper {
		uc := u.(*ssa.Call)
		a := uc.Call.Args
		if strip(a[3]) != x || strip(a[0]) == x {
			continue
		}
		for _, r := range referrersOf(uc) {
			ifi, ok := r.(*ssa.If)
			if !ok {
				continue
			}
			nf := normFact(ifi.Cond, true)
			if nf.V != ssa.Value(uc) {
				continue
			}
			fail := ifi.Block().Succs[1]
			if !nf.Val {
				fail = ifi.Block().Succs[0]
			}
			stale := fi.PathFromEdgePruned(ifi.Block(), fail, func(in ssa.Instruction) bool { return in == u }, func(in ssa.Instruction) bool { return p.IsCall(in, findPath) })
			c.Check(stale == nil, fn, u, "a failed index-level CAS re-runs the path search before the next attempt", "the retry uses the same stale predecessor: the CAS fails for ever (the insert spins) once the predecessor's link has changed")
		}
	}
	// a failed publish re-searches AND re-checks for an equal item before trying again
	var failSucc, casBlock *ssa.BasicBlock
	for _, r := range referrersOf(level0) {
		if ifi, ok := r.(*ssa.If); ok {
			cmp := normFact(ifi.Cond, true)
			if cmp.V == ssa.Value(level0) {
				casBlock = ifi.Block()
				if cmp.Val {
					failSucc = ifi.Block().Succs[1]
				} else {
					failSucc = ifi.Block().Succs[0]
				}
			}
		}
	}
	if failSucc == nil {
		c.Check(false, fn, level0, "outcome of the publishing CAS decides success", "the result of the publishing CAS is not branched on")
		return
	}
	derivesFromFindPath := func(v ssa.Value) bool {
		seen := map[ssa.Value]bool{}
		var walk func(v ssa.Value) bool
		walk = func(v ssa.Value) bool {
			v = strip(v)
			if seen[v] {
				return false
			}
			seen[v] = true
			v = strip(seeRet(v))
			switch y := v.(type) {
			case *ssa.Call:
				return p.CallsAny(y, findPath)
			case *ssa.Phi:
				for _, e := range y.Edges {
					if walk(e) {
						return true
					}
				}
			}
			return false
		}
		return walk(v)
	}
	isDupTest := func(in ssa.Instruction) bool {
		ifi, ok := in.(*ssa.If)
		if !ok {
			return false
		}
		cmp, ok := cmpOf(ifi.Cond, true)
		if !ok || (cmp.Op != token.NEQ && cmp.Op != token.EQL) {
			return false
		}
		return (isNilConst(cmp.Y) && derivesFromFindPath(cmp.X)) || (isNilConst(cmp.X) && derivesFromFindPath(cmp.Y))
	}
	isTarget := func(in ssa.Instruction) bool { return in == ssa.Instruction(level0) }
	noSearch := fi.PathFromEdgePruned(casBlock, failSucc, isTarget, func(in ssa.Instruction) bool { return p.IsCall(in, findPath) })
	c.Check(noSearch == nil, fn, level0, "a failed publish re-runs the path search before the next attempt", "after losing the publishing CAS the insert retries with stale predecessors/successors")
	// the duplicate test that counts is the one evaluated AFTER the fresh search: on every
	// path from the failed CAS to the next attempt, a findPath is followed by a duplicate test
	noDup := fi.PathFromEdgePruned(casBlock, failSucc, isTarget, func(in ssa.Instruction) bool {
		if !p.IsCall(in, findPath) {
			return false
		}
		// from this search, can the CAS be reached without a duplicate test?
		return fi.PathAvoiding(in, isTarget, isDupTest) == nil
	})
	c.Check(noDup == nil, fn, level0, "a failed publish re-checks for an equal item before the next attempt",
		"if the CAS was lost to a concurrent insert of an EQUAL item, the retry links a second node for it: both inserts succeed and the set contains the item twice")
}

// ---------------------------------------------------------------------------
// C13.b marking and unlinking CAS shapes
// ---------------------------------------------------------------------------

func clMarkCAS(c *Ctx) {
	p := c.P
	dcas := p.Func("skiplist", "Node", "dcasNext")
	sd := p.Func("skiplist", "Skiplist", "softDelete")
	hd := p.Func("skiplist", "Skiplist", "helpDelete")
	for _, d := range p.CallSites(sd, dcas) {
		a := callOf(d).Args
		tb, okT := constBool(a[5])
		c.Check(strip(a[0]) == strip(sd.Params[1]) && strip(a[2]) == strip(a[3]) && isFalseConst(a[4]) && okT && tb, sd, d,
			"mark CAS keeps the successor and only sets the mark", "marking a node changes its successor (or expects a marked link): concurrent inserts behind the node are lost or the mark can be applied twice")
	}
	for _, d := range p.CallSites(hd, dcas) {
		a := callOf(d).Args
		prev, curr, next := strip(hd.Params[2]), strip(hd.Params[3]), strip(hd.Params[4])
		c.Check(strip(a[0]) == prev && strip(a[1]) == strip(hd.Params[1]) && strip(a[2]) == curr && strip(a[3]) == next && isFalseConst(a[4]) && isFalseConst(a[5]), hd, d,
			"unlink CAS swings prev from the marked node to its successor, unmarked", "helpDelete unlinks a wrong node or installs a marked link into a live predecessor")
	}
	if len(p.CallSites(sd, dcas)) != 1 || len(p.CallSites(hd, dcas)) != 1 {
		undecidedf("softDelete/helpDelete: expected exactly one CAS each")
	}
	clLinkCASWhoMay(c)
}

// who may CAS a link: Insert4 (publish/index), softDelete (mark), helpDelete
// (unlink + accounting). An unlink anywhere else bypasses the statistics and
// the winner-only protocol.
func clLinkCASWhoMay(c *Ctx) {
	p := c.P
	dcas := p.Func("skiplist", "Node", "dcasNext")
	allowed := []*ssa.Function{p.Func("skiplist", "Skiplist", "Insert4"), p.Func("skiplist", "Skiplist", "softDelete"), p.Func("skiplist", "Skiplist", "helpDelete")}
	n := 0
	for _, s := range p.AllCallSites(dcas) {
		g := s.Parent()
		if g.Package() == nil || !strings.HasPrefix(g.Package().Pkg.Path(), modPath) {
			continue
		}
		n++
		ok := false
		for _, a := range allowed {
			if p.sameRoot(g, a) {
				ok = true
			}
		}
		c.Check(ok, g, s, "link CAS (dcasNext) only in Insert4, softDelete and helpDelete",
			"a link is swung outside the three protocol functions: a node unlinked there is not subtracted from node count / per-level distribution / MemoryInUse (helpDelete accounts for the node it unlinks), and no later search meets it to do so")
	}
	if n < 3 {
		undecidedf("dcasNext: only %d call sites found", n)
	}
}

// ---------------------------------------------------------------------------
// C13.c exactly one deleter wins: decision table of softDelete
// ---------------------------------------------------------------------------

func clSoftDeleteTable(c *Ctx) {
	p := c.P
	fn := p.Func("skiplist", "Skiplist", "softDelete")
	getNext := p.Func("skiplist", "Node", "getNext")
	dcas := p.Func("skiplist", "Node", "dcasNext")
	levelFn := p.Func("skiplist", "Node", "Level")
	addI := p.Func("skiplist", "Stats", "AddInt64")
	addU := p.Func("skiplist", "Stats", "AddUint64")
	fSoft := p.Field("skiplist", "Stats", "softDeletes")
	var bad []string
	pts := 0
	msg := ""
	for target := 0; target <= 2 && msg == ""; target++ {
		// outcome per level: 0 = this caller's CAS wins, 1 = it loses (someone else marked), 2 = already marked before we look
		n := target + 1
		total := 1
		for i := 0; i < n; i++ {
			total *= 3
		}
		for code := 0; code < total && msg == ""; code++ {
			out := make([]int, n)
			cc := code
			for i := 0; i < n; i++ {
				out[i] = cc % 3
				cc /= 3
			}
			marked := make([]bool, n)
			for i := range out {
				if out[i] == 2 {
					marked[i] = true
				}
			}
			softDelta := int64(0)
			casAfterMarked := false
			it := &interp{p: p}
			it.load = func(chain []*types.Var, root ssa.Value, env map[ssa.Value]ival) (ival, bool) {
				return ival{kind: 'p', h: root}, true
			}
			it.call = func(ci *ssa.Call, args []ival, env map[ssa.Value]ival) (ival, bool) {
				switch {
				case p.CallsAny(ci, levelFn):
					return ival{kind: 'i', i: int64(target)}, true
				case p.CallsAny(ci, getNext):
					lv := args[1].i
					if lv < 0 || int(lv) >= n {
						outsidef("getNext at level %d outside 0..%d", lv, n-1)
					}
					return ival{kind: 't', h: []ival{{kind: 'p', h: "next"}, {kind: 'b', b: marked[lv]}}}, true
				case p.CallsAny(ci, dcas):
					lv := args[1].i
					if lv < 0 || int(lv) >= n {
						outsidef("dcasNext at level %d outside 0..%d", lv, n-1)
					}
					if marked[lv] {
						casAfterMarked = true
						return ival{kind: 'b', b: false}, true
					}
					marked[lv] = true
					return ival{kind: 'b', b: out[lv] == 0}, true
				case p.CallsAny(ci, addI, addU):
					if f, _ := addrField(ci.Call.Args[1]); f == fSoft {
						softDelta += args[2].i
					}
					return ival{kind: 'u'}, true
				}
				return ival{}, false
			}
			var r runResult
			msg = tryInterp(func() { r = it.Run(fn, fn.Blocks[0], 0, map[ssa.Value]ival{}) })
			if msg != "" {
				break
			}
			pts++
			want := out[0] == 0
			got := len(r.ret) == 1 && r.ret[0].b
			allMarked := true
			for _, m := range marked {
				if !m {
					allMarked = false
				}
			}
			desc := fmt.Sprintf("node level %d, per-level outcome %v (0=own CAS wins,1=lost,2=already marked)", target, out)
			if got != want {
				bad = append(bad, desc+fmt.Sprintf(": reports %v, only the caller whose level-0 mark succeeded may report success", got))
			}
			if !allMarked {
				bad = append(bad, desc+": returns while a level is still unmarked")
			}
			wantSoft := int64(0)
			if want {
				wantSoft = 1
			}
			if softDelta != wantSoft {
				bad = append(bad, desc+fmt.Sprintf(": softDeletes changed by %d, expected %d", softDelta, wantSoft))
			}
			_ = casAfterMarked
		}
	}
	if msg != "" {
		c.Undecided(fn, nil, "softDelete decision table", "outside the fragment: "+msg)
		return
	}
	det := ""
	if len(bad) > 0 {
		det = fmt.Sprintf("%d deviations on %d scenarios; first: %s — two concurrent deleters of one node can both report success (or none), so an item is deleted twice / counted twice", len(bad), pts, bad[0])
	}
	c.Check(len(bad) == 0, fn, nil, "softDelete: success <=> own level-0 mark succeeded; all levels end marked; softDeletes +1 exactly for the winner", det)

	// deleteNode / Delete wrappers
	dn := p.Func("skiplist", "Skiplist", "deleteNode")
	dfi := p.Info(dn)
	sdCalls := p.CallSites(dn, fn)
	if c.Check(len(sdCalls) == 1, dn, nil, "deleteNode marks the node once", "") {
		for _, ret := range dfi.Returns() {
			b, isC := constBool(dfi.RetVal(ret, 0))
			if !isC {
				c.Check(strip(dfi.RetVal(ret, 0)) == sdCalls[0].(ssa.Value), dn, ret, "deleteNode reports what softDelete decided", "")
				continue
			}
			c.Check(dfi.guardedByValue(ret, sdCalls[0].(ssa.Value), b), dn, ret, "deleteNode reports what softDelete decided", "deleteNode reports success although this caller did not win the mark (or failure although it did)")
		}
		// the winner's unlink search
		fp := p.Func("skiplist", "Skiplist", "findPath")
		okFP := false
		for _, s := range p.CallSites(dn, fp) {
			if dfi.guardedByValue(s, sdCalls[0].(ssa.Value), true) {
				okFP = true
			}
		}
		c.Check(okFP, dn, nil, "the winning deleter runs a path search that physically unlinks the node", "a marked node is never unlinked by its deleter: it stays linked until some search happens to pass it, and may be freed while linked")
	}
	del := p.Func("skiplist", "Skiplist", "Delete")
	delfi := p.Info(del)
	fp := p.Func("skiplist", "Skiplist", "findPath")
	for _, s := range p.CallSites(del, dn) {
		found := false
		for _, f := range p.CallSites(del, fp) {
			fv := f.(ssa.Value)
			if delfi.guardedByCmp(s, token.NEQ, isValue(fv), isNilConst) {
				found = true
			}
		}
		c.Check(found, del, s, "Delete marks a node only if the search found an equal item", "Delete marks the successor of a key that is absent: an unrelated item is deleted")
	}
}

// ---------------------------------------------------------------------------
// C13.d findPath: marked nodes are helped, never compared or recorded
// ---------------------------------------------------------------------------

func clFindPathHelps(c *Ctx) {
	p := c.P
	fn := p.Func("skiplist", "Skiplist", "findPath")
	fi := p.Info(fn)
	clFindPathRecordsEachLevel(c)
	getNext := p.Func("skiplist", "Node", "getNext")
	help := p.Func("skiplist", "Skiplist", "helpDelete")
	compareFn := p.Func("skiplist", "", "compare")
	nodeItem := p.Func("skiplist", "Node", "Item")
	fHead := p.Field("skiplist", "Skiplist", "head")
	fPreds := p.Field("skiplist", "ActionBuffer", "preds")
	fSuccs := p.Field("skiplist", "ActionBuffer", "succs")

	// markOf(node): all sources of a boolean are Extract#1 of getNext(node')
	isMarkOf := func(v ssa.Value, node ssa.Value) bool {
		seen := map[ssa.Value]bool{}
		ok := true
		var walk func(v ssa.Value)
		walk = func(v ssa.Value) {
			if seen[v] {
				return
			}
			seen[v] = true
			switch y := v.(type) {
			case *ssa.Phi:
				for _, e := range y.Edges {
					walk(e)
				}
			case *ssa.Extract:
				call, isCall := y.Tuple.(*ssa.Call)
				if !isCall || y.Index != 1 || !p.CallsAny(call, getNext) {
					ok = false
				}
			default:
				ok = false
			}
		}
		walk(v)
		_ = node
		return ok
	}
	cmps := p.CallSites(fn, compareFn)
	if len(cmps) != 1 {
		undecidedf("findPath: expected one comparison, found %d", len(cmps))
	}
	cmp := cmps[0]
	live := fi.Guarded(cmp, func(v ssa.Value, val bool) bool { return !val && isMarkOf(v, nil) })
	c.Check(live, fn, cmp, "only unmarked nodes are compared with the search key", "a node marked deleted is compared and can become predecessor/successor of the path: inserts link behind a dead node and are lost, lookups return deleted items")
	// the compared node is the one whose mark was tested: compare(cmp, curr.Item(), itm)
	it, ok := strip(callOf(cmp).Args[1]).(*ssa.Call)
	c.Check(ok && p.CallsAny(it, nodeItem) && strip(callOf(cmp).Args[2]) == strip(fn.Params[1]), fn, cmp, "comparison is compare(cmp, current.Item(), searched item)", "operands of the search comparison are swapped: the descent goes the wrong way")
	// path buffers recorded under the same guard
	n := 0
	for _, in := range fi.Instrs {
		st, ok := in.(*ssa.Store)
		if !ok {
			continue
		}
		ia, ok := st.Addr.(*ssa.IndexAddr)
		if !ok {
			continue
		}
		f, _ := loadedField(ia.X)
		if f != fPreds && f != fSuccs {
			continue
		}
		n++
		g := fi.Guarded(st, func(v ssa.Value, val bool) bool { return !val && isMarkOf(v, nil) })
		c.Check(g, fn, st, "path buffer "+f.Name()+" records only unmarked nodes", "a marked node is recorded as predecessor/successor")
	}
	if n != 2 {
		undecidedf("findPath: expected stores to preds and succs, found %d", n)
	}
	// failed help restarts from the head
	for _, h := range p.CallSites(fn, help) {
		hv := h.(ssa.Value)
		var failSucc *ssa.BasicBlock
		for _, r := range referrersOf(hv) {
			if ifi, ok := r.(*ssa.If); ok {
				f := normFact(ifi.Cond, true)
				if f.V == hv {
					if f.Val {
						failSucc = ifi.Block().Succs[1]
					} else {
						failSucc = ifi.Block().Succs[0]
					}
				}
			}
		}
		if !c.Check(failSucc != nil, fn, h, "outcome of helpDelete is examined", "the result of the unlink CAS is ignored in the search") {
			continue
		}
		stale := fi.PathFromBlock(failSucc, func(x ssa.Instruction) bool { return x == cmp }, func(x ssa.Instruction) bool {
			u, ok := x.(*ssa.UnOp)
			if !ok || u.Op != token.MUL {
				return false
			}
			f, _ := addrField(u.X)
			return f == fHead
		})
		c.Check(stale == nil, fn, h, "a failed unlink restarts the search from the head", "after losing the unlink CAS the search continues from a predecessor that may itself be deleted (lost insert / stale path)")
		// helped node is the marked one: helpDelete(level, prev, curr, next)
		c.Check(fi.Guarded(h, func(v ssa.Value, val bool) bool { return val && isMarkOf(v, nil) }), fn, h, "only a node observed marked is unlinked", "a live node is unlinked by the search")
	}
}

// ---------------------------------------------------------------------------
// C13.e level growth by CAS: table of NewLevel
// ---------------------------------------------------------------------------

func clLevelGrowth(c *Ctx) {
	p := c.P
	fLevel := p.Field("skiplist", "Skiplist", "level")
	nl := p.Func("skiplist", "Skiplist", "NewLevel")
	for _, w := range p.fieldWrites(fLevel) {
		c.Check(w.kind == "CAS" && p.sameRoot(w.fn, nl), w.fn, w.in, "Skiplist.level is raised only by the CAS in NewLevel", "the list height is written outside NewLevel / without CAS: concurrent inserts can lower it, hiding upper levels from searches")
	}
	maxLevel, _ := constantInt64(p.Const("skiplist", "MaxLevel"))
	var bad []string
	pts := 0
	msg := ""
	for _, k := range []int64{0, 1, 2, 5, maxLevel, maxLevel + 3} {
		for _, L := range []int64{0, 1, 4, maxLevel - 1, maxLevel} {
			for _, win := range []bool{true, false} {
				calls := int64(0)
				var casOld, casNew int64 = -1, -1
				it := &interp{p: p}
				it.floatConsts = true
				it.load = func(chain []*types.Var, root ssa.Value, env map[ssa.Value]ival) (ival, bool) {
					return ival{kind: 'p', h: root}, true
				}
				it.call = func(ci *ssa.Call, args []ival, env map[ssa.Value]ival) (ival, bool) {
					if ci.Call.StaticCallee() == nil && !ci.Call.IsInvoke() {
						// randFn: k values below p, then one above
						calls++
						if calls <= k {
							return ival{kind: 'i', i: 0}, true
						}
						return ival{kind: 'i', i: 999999}, true
					}
					if kd, on := atomicOnField(ci, fLevel); on {
						switch kd {
						case "Load":
							return ival{kind: 'i', i: L}, true
						case "CAS":
							casOld, casNew = args[1].i, args[2].i
							return ival{kind: 'b', b: win}, true
						}
					}
					return ival{}, false
				}
				var r runResult
				msg = tryInterp(func() { r = it.Run(nl, nl.Blocks[0], 0, map[ssa.Value]ival{}) })
				if msg != "" {
					break
				}
				pts++
				kk := k
				if kk > maxLevel {
					kk = maxLevel
				}
				want := kk
				if kk > L {
					if win {
						want = L + 1
					} else {
						want = L
					}
					if casOld != L || casNew != L+1 {
						bad = append(bad, fmt.Sprintf("draw=%d height=%d: CAS(%d -> %d), expected CAS(%d -> %d)", k, L, casOld, casNew, L, L+1))
					}
				}
				got := r.ret[0].i
				if got != want {
					bad = append(bad, fmt.Sprintf("draw=%d height=%d cas-won=%v: returns level %d, reference %d", k, L, win, got, want))
				}
				if got > maxLevel {
					bad = append(bad, fmt.Sprintf("draw=%d height=%d: returns level %d > MaxLevel", k, L, got))
				}
			}
		}
	}
	if msg != "" {
		c.Undecided(nl, nil, "NewLevel decision table", "outside the fragment: "+msg)
		return
	}
	det := ""
	if len(bad) > 0 {
		det = bad[0] + ": a node taller than the installed list height is never found through its upper levels, or a level above MaxLevel overruns the node/buffer arrays"
	}
	c.Check(len(bad) == 0, nl, nil, "NewLevel: result <= installed height (grown by at most one, by CAS) and <= MaxLevel", det)
	_ = pts
}

// ---------------------------------------------------------------------------
// C13.f tagged-word accessors agree (per build configuration)
// ---------------------------------------------------------------------------

type accSig struct {
	consts  map[string][]int64 // op -> sorted constants
	globals map[string]bool
	atomics map[string]bool
}

func accessorSig(p *Prog, fn *ssa.Function) accSig {
	s := accSig{map[string][]int64{}, map[string]bool{}, map[string]bool{}}
	// the accessor's own instructions plus those of small private helpers it calls
	// (e.g. a shared address computation), two levels deep
	instrs := append([]ssa.Instruction{}, p.Info(fn).Instrs...)
	seenF := map[*ssa.Function]bool{fn: true}
	for depth, frontier := 0, []*ssa.Function{fn}; depth < 2 && len(frontier) > 0; depth++ {
		var next []*ssa.Function
		for _, f := range frontier {
			for _, in := range p.Info(f).Instrs {
				if cc := callOf(in); cc != nil {
					if h := cc.StaticCallee(); h != nil && h.Blocks != nil && h.Package() == fn.Package() && !seenF[h] && h.Synthetic == "" {
						seenF[h] = true
						instrs = append(instrs, p.Info(h).Instrs...)
						next = append(next, h)
					}
				}
			}
		}
		frontier = next
	}
	for _, in := range instrs {
		switch x := in.(type) {
		case *ssa.BinOp:
			for _, o := range []ssa.Value{x.X, x.Y} {
				if cst, ok := strip(o).(*ssa.Const); ok && cst.Value != nil && cst.Value.Kind() == constant.Int {
					if n, exact := constant.Uint64Val(cst.Value); exact {
						s.consts[x.Op.String()] = append(s.consts[x.Op.String()], int64(n))
					} else if n, exact := constant.Int64Val(cst.Value); exact {
						s.consts[x.Op.String()] = append(s.consts[x.Op.String()], n)
					}
				}
			}
		case *ssa.UnOp:
			if g, ok := x.X.(*ssa.Global); ok && x.Op == token.MUL {
				s.globals[g.Name()] = true
			}
		case *ssa.Call:
			if f := x.Call.StaticCallee(); f != nil && f.Pkg != nil && f.Pkg.Pkg.Path() == "sync/atomic" {
				s.atomics[f.Name()] = true
			}
		}
	}
	for k := range s.consts {
		sort.Slice(s.consts[k], func(i, j int) bool { return s.consts[k][i] < s.consts[k][j] })
	}
	return s
}

func has(xs []int64, v int64) bool {
	for _, x := range xs {
		if x == v {
			return true
		}
	}
	return false
}

func keys(m map[string]bool) string {
	var out []string
	for k := range m {
		out = append(out, k)
	}
	sort.Strings(out)
	return strings.Join(out, ",")
}

func clAccessorAgreement(c *Ctx) {
	p := c.P
	get := p.Func("skiplist", "Node", "getNext")
	set := p.Func("skiplist", "Node", "setNext")
	cas := p.Func("skiplist", "Node", "dcasNext")
	g, s, d := accessorSig(p, get), accessorSig(p, set), accessorSig(p, cas)
	sizes := types.SizesFor("gc", map[string]string{"amd64": "amd64", "arm64-nocgo": "arm64"}[p.Config])
	if p.Config == "amd64" {
		ref := p.Named("skiplist", "NodeRef").Underlying().(*types.Struct)
		offs := sizes.Offsetsof([]*types.Var{ref.Field(0), ref.Field(1)})
		flagSize := sizes.Sizeof(ref.Field(0).Type())
		refSize := sizes.Sizeof(ref)
		c.Check(ref.Field(0).Name() == "flag" && ref.Field(1).Name() == "ptr" && offs[0] == 0 && offs[1] == flagSize && refSize == 16 && flagSize == 8, get, nil,
			"NodeRef layout: flag (8 bytes) at 0, ptr at 8, 16 bytes", fmt.Sprintf("NodeRef layout changed: offsets %v, size %d", offs, refSize))
		off := flagSize - 1
		shift := int64(8 * (flagSize - off))
		mark, _ := constantInt64(p.Const("skiplist", "deletedFlag"))
		// word = ref + off ; mark = low byte ; pointer = word >> shift
		c.Check(has(g.consts["+"], off) && has(d.consts["+"], off), get, nil, fmt.Sprintf("getNext and dcasNext address the tagged word at the same byte offset (+%d = last byte of flag)", off),
			fmt.Sprintf("reader adds %v, CAS adds %v: the word that is CASed is not the word that is read", g.consts["+"], d.consts["+"]))
		c.Check(has(g.consts[">>"], shift) && has(d.consts["<<"], shift) && len(d.consts["<<"]) == 2, get, nil, fmt.Sprintf("pointer is shifted by the same amount on read (>> %d) and on CAS (<< %d, old and new)", shift, shift),
			fmt.Sprintf("reader shifts %v, CAS shifts %v", g.consts[">>"], d.consts["<<"]))
		c.Check(has(g.consts["&"], mark) && has(d.consts["|"], mark) && mark < 256, get, nil, "the delete mark read by getNext is the one set by dcasNext and fits the tag byte",
			fmt.Sprintf("reader masks %v, CAS sets %v, deletedFlag=%d", g.consts["&"], d.consts["|"], mark))
		for name, sg := range map[string]accSig{"getNext": g, "setNext": s, "dcasNext": d} {
			c.Check(sg.globals["nodeHdrSize"] && sg.globals["nodeRefSize"], get, nil, name+" locates the reference by nodeHdrSize + nodeRefSize*level", "accessor "+name+" uses "+keys(sg.globals))
		}
		c.Check(g.atomics["LoadUint64"] && d.atomics["CompareAndSwapUint64"], get, nil, "tagged word is read and swapped with 64-bit atomics", "reader: "+keys(g.atomics)+"; CAS: "+keys(d.atomics))
		// setNext (used on private nodes, which may be recycled blocks of a non-zeroing allocator) rewrites the whole
		// reference: pointer AND flag word, so no stale delete mark survives
		fFlag, fPtr := ref.Field(0), ref.Field(1)
		wroteFlag, wrotePtr := false, false
		for _, in := range p.Info(set).Instrs {
			if st, ok := in.(*ssa.Store); ok {
				switch f, _ := addrField(st.Addr); f {
				case fFlag:
					if isConstInt(0)(st.Val) {
						wroteFlag = true
					}
				case fPtr:
					wrotePtr = true
				}
			}
		}
		c.Check(wroteFlag && wrotePtr, set, nil, "setNext stores the pointer and clears the flag word of the reference",
			"setNext leaves the flag word as it was: a node allocated from a recycled block (user allocator without zeroing) starts with the delete marks of the node freed there — it is inserted as already deleted and unlinked by the next search")
		// GC write barrier no-op CAS targets the ptr field
		c.Check(d.globals["nodeRefFlagSize"], cas, nil, "the pointer write-barrier CAS addresses NodeRef.ptr (ref + sizeof(flag))", "")
	} else {
		mark, _ := constantInt64(p.Const("skiplist", "deletedFlag"))
		mask, _ := constantInt64(p.Const("skiplist", "deletedFlagMask"))
		c.Check(mask == ^mark && mark&(mark-1) == 0 && mark > 1<<47, get, nil, "deletedFlag is a single bit above the address bits and deletedFlagMask its complement", fmt.Sprintf("deletedFlag=%#x mask=%#x", mark, mask))
		c.Check(has(g.consts["&"], mark) && has(s.consts["|"], mark) && has(d.consts["|"], mark), get, nil, "getNext, setNext and dcasNext use the same mark bit",
			fmt.Sprintf("get masks %v, set ors %v, cas ors %v", g.consts["&"], s.consts["|"], d.consts["|"]))
		for name, sg := range map[string]accSig{"getNext": g, "setNext": s, "dcasNext": d} {
			c.Check(sg.globals["nodeHdrSizeMM"] && sg.globals["nodeRefSizeMM"], get, nil, name+" locates the tagged word by nodeHdrSizeMM + nodeRefSizeMM*level", "accessor "+name+" uses "+keys(sg.globals))
		}
		c.Check(g.atomics["LoadUint64"] && s.atomics["StoreUint64"] && d.atomics["CompareAndSwapUint64"], get, nil, "tagged word accessed with 64-bit atomics in all three accessors", "")
		// header size used by the accessors equals the allocated header
		nmm := p.Named("skiplist", "NodeMM")
		rmm := p.Named("skiplist", "NodeRefMM")
		c.Check(sizes.Sizeof(rmm) == 8, get, nil, "NodeRefMM is one 64-bit word", "")
		// Node (Go heap variant) has the same prefix layout as NodeMM so that the cast in allocNode is sound
		node := p.Named("skiplist", "Node").Underlying().(*types.Struct)
		nm := nmm.Underlying().(*types.Struct)
		okPrefix := node.NumFields() >= nm.NumFields()
		for i := 0; okPrefix && i < nm.NumFields(); i++ {
			if node.Field(i).Name() != nm.Field(i).Name() || !types.Identical(node.Field(i).Type(), nm.Field(i).Type()) {
				okPrefix = false
			}
		}
		c.Check(okPrefix, get, nil, "NodeMM is a prefix of Node (the cast in allocNode is layout-compatible)", "fields of Node and NodeMM diverge: malloc'ed nodes are accessed with the wrong offsets")
	}
}

// findPath records predecessor/successor of level i from the walk of level i:
// every store into buf.preds / buf.succs is indexed by the level variable the
// walk (getNext(level)) uses, never by a derived index.
func clFindPathRecordsEachLevel(c *Ctx) {
	p := c.P
	fn := p.Func("skiplist", "Skiplist", "findPath")
	fi := p.Info(fn)
	getNext := p.Func("skiplist", "Node", "getNext")
	fPreds := p.Field("skiplist", "ActionBuffer", "preds")
	fSuccs := p.Field("skiplist", "ActionBuffer", "succs")
	levelVars := map[ssa.Value]bool{}
	for _, s := range p.CallSites(fn, getNext) {
		levelVars[strip(callOf(s).Args[1])] = true
	}
	n := 0
	for _, in := range fi.Instrs {
		st, ok := in.(*ssa.Store)
		if !ok {
			continue
		}
		ia, ok := st.Addr.(*ssa.IndexAddr)
		if !ok {
			continue
		}
		f := lastField(ia.X)
		if f != fPreds && f != fSuccs {
			continue
		}
		n++
		c.Check(levelVars[strip(ia.Index)], fn, st, "path buffer slot of a level is written from the walk of that level",
			"a slot of another level is filled without walking that level (e.g. copied down from an index level on an exact match): with a key-only comparator several versions compare equal, and the search lands on whichever is tallest instead of the first one at level 0")
	}
	if n < 2 {
		undecidedf("findPath: stores into the path buffer not found")
	}
}

// A node of level L is linked on every level 0..L: both level loops of
// Insert4 (initial successors, index levels) run their counter up to and
// including the node's level. A tower whose top level is never linked (or
// whose top successor is left uninitialised in a recycled block) breaks the
// per-level sub-sequence shape and what levelNodesCount[L] claims.
func clTowerLinkedToTop(c *Ctx) {
	p := c.P
	fn := p.Func("skiplist", "Skiplist", "Insert4")
	setNext := p.Func("skiplist", "Node", "setNext")
	dcas := p.Func("skiplist", "Node", "dcasNext")
	seen := map[*ssa.Phi]bool{}
	for _, cs := range p.CallSites(fn, setNext, dcas) {
		args := callOf(cs).Args
		if len(args) < 2 {
			continue
		}
		ph, ok := strip(args[1]).(*ssa.Phi)
		if !ok || seen[ph] {
			continue
		}
		seen[ph] = true
		var bound *ssa.BinOp
		inclusive := false
		for _, r := range referrersOf(ph) {
			b, ok := r.(*ssa.BinOp)
			if !ok {
				continue
			}
			other := b.Y
			op := b.Op
			if strip(b.Y) == ssa.Value(ph) {
				other = b.X
				switch op { // mirror
				case token.GEQ:
					op = token.LEQ
				case token.GTR:
					op = token.LSS
				default:
					continue
				}
			} else if strip(b.X) != ssa.Value(ph) {
				continue
			}
			if op != token.LEQ && op != token.LSS {
				continue
			}
			if _, isConst := strip(other).(*ssa.Const); isConst {
				continue
			}
			bound = b
			plusOne := false
			if add, ok := strip(other).(*ssa.BinOp); ok && add.Op == token.ADD {
				if k, ok := constInt(add.Y); ok && k == 1 {
					plusOne = true
				}
			}
			inclusive = (op == token.LEQ && !plusOne) || (op == token.LSS && plusOne)
		}
		if bound == nil {
			undecidedf("Insert4: loop bound of the level counter used at %s not found", p.pos(cs.Pos()))
		}
		c.Check(inclusive, fn, bound, "level loop of Insert4 includes the node's top level",
			"the loop over the new node's levels stops below its top level: the tower's top link is never published (or its top successor never initialised), so level lists are no sub-sequences of each other and levelNodesCount overstates the index")
	}
	c.Check(len(seen) >= 2, fn, nil, "Insert4 has the two level loops (initial successors, index levels)", "")
}

package main

func init() {
	register(&PropCheck{
		ID: "C18",
		Explanation: "Content equality of assembled/merged lists is value-level and NOT decided. Decided structural conditions: (a) every MergeIterator method that collects cursors into the heap first empties it, pushes only valid cursors, initialises the heap after collecting and then takes the smallest; (b) Next pops, yields the popped node, advances that cursor exactly once and re-pushes it with its new node iff still valid; " +
			"(c) Segment.Add chains the new node at every level 0..its own level (tail link only where a tail exists, becomes tail, becomes head of empty levels); Assemble chains the running tail to each segment head only when both exist, advances the running tail only to non-empty segment tails, hooks head and tail sentinels on every populated level, loops over 0..MaxLevel, merges every segment's statistics; (d) builder nodes come from the store's allocator and NewLevel. Accounting of Segment.Add = C14.a.",
		Assumptions: []string{"container/heap is correct"},
		Run: func(c *Ctx) {
			c.Do("C18.a", "L2+L1 re-positioning resets the merge heap", 6, func() { clMergeHeapReset(c) })
			c.Do("C18.b", "L2 pop/advance/re-push pairing", 5, func() { clMergeNext(c) })
			c.Do("C18.c", "L8+L2 per-level chaining", 12, func() { clBuilderChaining(c); clAssembleTable(c) })
			c.Do("C18.d", "L9 builder accounting and statistics", 8, func() { clAccounting(c); clLocalStatsOwners(c); clRestoreItemSize(c); clStatsAddOnOwnObject(c) })
		},
	})
}

package main

import (
	"fmt"
	"go/constant"
	"go/token"
	"go/types"
	"strings"

	"golang.org/x/tools/go/ssa"
)

// ---------------------------------------------------------------------------
// C19: writer and reader are mirror images (L9 sibling codec agreement)
// ---------------------------------------------------------------------------

// byteOrderOf: which encoding/binary byte order object a method call uses.
func byteOrderCall(in ssa.Instruction) (order string, method string, args []ssa.Value, ok bool) {
	cc := callOf(in)
	if cc == nil {
		return
	}
	f := cc.StaticCallee()
	if f == nil || f.Pkg == nil || f.Pkg.Pkg.Path() != "encoding/binary" || f.Signature.Recv() == nil {
		return
	}
	rt := f.Signature.Recv().Type().String()
	switch {
	case strings.Contains(rt, "bigEndian"):
		order = "BigEndian"
	case strings.Contains(rt, "littleEndian"):
		order = "LittleEndian"
	default:
		return
	}
	return order, f.Name(), cc.Args, true
}

// sliceBounds returns constant [lo:hi] bounds of a slice expression value.
func sliceBounds(v ssa.Value) (lo, hi int64, base ssa.Value, ok bool) {
	s, isS := strip(v).(*ssa.Slice)
	if !isS {
		return 0, 0, nil, false
	}
	lo = 0
	if s.Low != nil {
		l, isC := constInt(s.Low)
		if !isC {
			return 0, 0, nil, false
		}
		lo = l
	}
	if s.High == nil {
		return lo, -1, s.X, true
	}
	h, isC := constInt(s.High)
	if !isC {
		return 0, 0, nil, false
	}
	return lo, h, s.X, true
}

func widthOf(method string) int64 {
	switch {
	case strings.HasSuffix(method, "Uint16"):
		return 2
	case strings.HasSuffix(method, "Uint32"):
		return 4
	case strings.HasSuffix(method, "Uint64"):
		return 8
	}
	return -1
}

type prefixCodec struct {
	in     ssa.Instruction
	order  string
	method string
	lo, hi int64
}

func (pc prefixCodec) String() string {
	return fmt.Sprintf("%s.%s over buf[%d:%d]", pc.order, pc.method, pc.lo, pc.hi)
}

func prefixCodecs(p *Prog, fn *ssa.Function) []prefixCodec {
	var out []prefixCodec
	for _, in := range p.Info(fn).Instrs {
		order, m, args, ok := byteOrderCall(in)
		if !ok || widthOf(m) < 0 {
			continue
		}
		lo, hi, _, okS := sliceBounds(args[1])
		if !okS {
			lo, hi = -1, -1
		}
		out = append(out, prefixCodec{in, order, m, lo, hi})
	}
	return out
}

// C19.a frame grammar agreement between EncodeItem and DecodeItem.
func clFrameGrammar(c *Ctx) {
	p := c.P
	enc := p.Func("nitro", "Nitro", "EncodeItem")
	dec := p.Func("nitro", "Nitro", "DecodeItem")
	efi, dfi := p.Info(enc), p.Info(dec)
	fLen := p.Field("nitro", "Item", "dataLen")
	bytesFn := p.Func("nitro", "Item", "Bytes")
	version, _ := constantInt64(p.Const("nitro", "version"))
	bufSize, _ := constantInt64(p.Const("nitro", "encodeBufSize"))

	ecs := prefixCodecs(p, enc)
	if len(ecs) != 1 {
		undecidedf("EncodeItem: expected one length-prefix encoding, found %d", len(ecs))
	}
	w := ecs[0]
	ww := widthOf(w.method)
	c.Check(w.lo == 0 && w.hi == ww, enc, w.in, "writer prefix slice width equals the encoded integer width", fmt.Sprintf("writer uses %s", w))
	// value encoded = itm.dataLen
	_, _, wargs, _ := byteOrderCall(w.in)
	c.Check(loadsField(fLen)(wargs[2]), enc, w.in, "writer prefix value is the item's data length", "the length prefix does not announce len(item data)")
	c.Check(ww <= bufSize, enc, w.in, "encode buffer holds the prefix", fmt.Sprintf("prefix width %d exceeds encodeBufSize %d", ww, bufSize))
	// writes: prefix slice then item bytes, in this order, both error-checked (C12.a)
	var writes []*ssa.Call
	for _, in := range efi.Instrs {
		if call, ok := in.(*ssa.Call); ok && call.Call.IsInvoke() && call.Call.Method.Name() == "Write" {
			writes = append(writes, call)
		}
	}
	if c.Check(len(writes) == 2, enc, nil, "writer emits prefix then payload", fmt.Sprintf("expected 2 writes, found %d", len(writes))) {
		lo, hi, _, ok := sliceBounds(writes[0].Call.Args[0])
		c.Check(ok && lo == w.lo && hi == w.hi && efi.Dominates(w.in, writes[0]), enc, writes[0], "first write is exactly the encoded prefix", "the bytes written as prefix are not the bytes the length was encoded into")
		b, ok2 := strip(writes[1].Call.Args[0]).(*ssa.Call)
		c.Check(ok2 && p.CallsAny(b, bytesFn) && efi.Dominates(writes[0], writes[1]), enc, writes[1], "second write is the item's bytes", "the payload written is not the item's bytes, or precedes the prefix")
	}
	// reader: per version branch
	dcs := prefixCodecs(p, dec)
	if len(dcs) < 1 {
		undecidedf("DecodeItem: no length-prefix decoding found")
	}
	verParam := dec.Params[1]
	cnt := counter{}
	current := 0
	for _, d := range dcs {
		dw := widthOf(d.method)
		// which versions reach this branch?
		isV0 := dfi.guardedByCmp(d.in, token.EQL, isValue(verParam), isConstInt(0))
		notV0 := dfi.guardedByCmp(d.in, token.NEQ, isValue(verParam), isConstInt(0))
		branch := "all versions"
		if isV0 {
			branch = "version 0"
		} else if notV0 {
			branch = "version >= 1"
		}
		c.Check(d.lo == 0 && d.hi == dw, dec, d.in, cnt.in(dec, "reader ("+branch+") decodes an integer as wide as the slice it read"), fmt.Sprintf("reader uses %s", d))
		c.Check(d.order == w.order, dec, d.in, cnt.in(dec, "reader ("+branch+") uses the writer's byte order"), fmt.Sprintf("writer %s, reader %s: lengths are misread", w.order, d.order))
		// the ReadFull feeding it reads exactly that slice
		okRead := false
		for _, in := range dfi.Instrs {
			if call, ok := in.(*ssa.Call); ok {
				if f := call.Call.StaticCallee(); f != nil && f.String() == "io.ReadFull" {
					lo, hi, _, okS := sliceBounds(call.Call.Args[1])
					if okS && lo == d.lo && hi == d.hi && dfi.Dominates(call, d.in) && call.Block() == d.in.Block() || (okS && lo == d.lo && hi == d.hi && dfi.Dominates(call, d.in) && sameBranch(dfi, call, d.in)) {
						okRead = true
					}
				}
			}
		}
		c.Check(okRead, dec, d.in, cnt.in(dec, "reader ("+branch+") reads exactly the prefix bytes it decodes"), "the number of prefix bytes consumed differs from the bytes decoded: the stream is misaligned from the first item on")
		// version dispatch: the current format version must take the branch with the writer's width
		if (version == 0 && (isV0 || branch == "all versions")) || (version != 0 && (notV0 || branch == "all versions")) {
			current++
			c.Check(dw == ww, dec, d.in, "reader branch for the current format version has the writer's prefix width", fmt.Sprintf("writer writes %d prefix bytes, the reader branch taken for version %d reads %d", ww, version, dw))
		} else if isV0 {
			c.Check(dw == 2, dec, d.in, "reader branch for format version 0 reads the 2-byte prefix of that format", fmt.Sprintf("v0 files have a 2-byte prefix, reader decodes %d bytes", dw))
		}
		c.Check(dw <= bufSize, dec, d.in, cnt.in(dec, "decode buffer holds the prefix ("+branch+")"), "")
	}
	c.Check(current >= 1, dec, nil, "a reader branch handles the current format version", "no decode branch is selected for the version StoreToDisk writes")
	hasV0 := false
	for _, d := range dcs {
		if dfi.guardedByCmp(d.in, token.EQL, isValue(verParam), isConstInt(0)) {
			hasV0 = true
		}
	}
	c.Check(hasV0 || version == 0, dec, nil, "a reader branch decodes the older format version 0", "files framed in format version 0 are no longer decoded")
	// every prefix that is read is decoded into the item length (no branch leaves the length at a default)
	for _, in := range dfi.Instrs {
		call, ok := in.(*ssa.Call)
		if !ok || !p.CallsAny(call, p.Func("nitro", "Nitro", "allocItem")) {
			continue
		}
		okLen := true
		seen := map[ssa.Value]bool{}
		var walk func(v ssa.Value)
		walk = func(v ssa.Value) {
			v = strip(v)
			if seen[v] {
				return
			}
			seen[v] = true
			switch x := v.(type) {
			case *ssa.Phi:
				for _, e := range x.Edges {
					walk(e)
				}
			case *ssa.Const:
				okLen = false
			}
		}
		walk(call.Call.Args[1])
		c.Check(okLen, dec, in, "item length comes from a decoded prefix on every branch", "on some format branch the length prefix is read but not decoded: every item of that format is taken for the terminator")
	}
	// nitro.json carries the version constant, LoadFromDisk passes it to the reader
	st := p.Func("nitro", "Nitro", "StoreToDisk")
	okVer := false
	for _, in := range p.Info(st).Instrs {
		if mu, ok := in.(*ssa.MapUpdate); ok {
			if n, isC := constInt(mu.Value); isC && n == version {
				okVer = true
			}
		}
	}
	c.Check(okVer, st, nil, "backup manifest records the format version constant", "nitro.json does not record the version the files are written in")
}

// sameBranch: a and b are in blocks such that a's block dominates b's block and
// no branch on the version lies between (approximation: a's block dominates b
// and b's block is a's block or its straight-line successor after the error test).
func sameBranch(fi *FuncInfo, a, b ssa.Instruction) bool {
	return a.Block().Dominates(b.Block()) && len(b.Block().Preds) == 1 && (b.Block().Preds[0] == a.Block())
}

// The reader decodes the format version recorded in the backup, and every frame
// byte goes through the writer's one buffered stream.
func clReaderVersionAndSingleStream(c *Ctx) {
	p := c.P
	nfr := p.Func("nitro", "Nitro", "newFileReader")
	fVer := p.Field("nitro", "rawFileReader", "version")
	sts := p.storesTo(nfr, fVer)
	ok := len(sts) == 1 && strip(sts[0].Val) == strip(nfr.Params[2])
	var at ssa.Instruction
	if len(sts) > 0 {
		at = sts[0]
	}
	c.Check(ok, nfr, at, "file reader is constructed with the format version it is given", "readers ignore the version recorded in the backup (nitro.json): files of the older format are decoded with the current prefix width and fail or desynchronise")
	// ReadItem passes the reader's version to DecodeItem
	ri := p.Func("nitro", "rawFileReader", "ReadItem")
	dec := p.Func("nitro", "Nitro", "DecodeItem")
	for _, s := range p.CallSites(ri, dec) {
		c.Check(loadsField(fVer)(callOf(s).Args[1]), ri, s, "ReadItem decodes with the reader's format version", "")
	}
	// LoadFromDisk derives it from the manifest
	load := p.Func("nitro", "Nitro", "LoadFromDisk")
	for _, s := range p.CallSites(load, nfr) {
		v := strip(callOf(s).Args[2])
		fromManifest := false
		seen := map[ssa.Value]bool{}
		var walk func(v ssa.Value)
		walk = func(v ssa.Value) {
			v = strip(v)
			if seen[v] {
				return
			}
			seen[v] = true
			switch x := v.(type) {
			case *ssa.Phi:
				for _, e := range x.Edges {
					walk(e)
				}
			case *ssa.Lookup:
				fromManifest = true
			case *ssa.Extract:
				walk(x.Tuple)
			case *ssa.UnOp:
				if al, ok := x.X.(*ssa.Alloc); ok {
					for _, r := range referrersOf(al) {
						if st, ok := r.(*ssa.Store); ok && st.Addr == ssa.Value(al) {
							walk(st.Val)
						}
					}
				}
				if fv, ok := x.X.(*ssa.FreeVar); ok {
					if al, ok := closureBinding(fv.Parent(), fv).(*ssa.Alloc); ok {
						for _, r := range referrersOf(al) {
							if st, ok := r.(*ssa.Store); ok && st.Addr == ssa.Value(al) {
								walk(st.Val)
							}
						}
					}
				}
			}
		}
		walk(v)
		c.Check(fromManifest, load, s, "restore opens readers with the version read from nitro.json", "the version recorded in the backup is not what the readers decode with")
	}
	// writer: one stream
	wi := p.Func("nitro", "rawFileWriter", "WriteItem")
	enc := p.Func("nitro", "Nitro", "EncodeItem")
	fW := p.Field("nitro", "rawFileWriter", "w")
	fFd := p.Field("nitro", "rawFileWriter", "fd")
	n := 0
	for _, s := range p.CallSites(wi, enc) {
		n++
		w := callOf(s).Args[3]
		f, _ := loadedField(strip(w))
		c.Check(f == fW, wi, s, "every frame is written through the writer's buffered stream", "some frames bypass the buffered stream (e.g. large items written straight to the file): they overtake frames still in the buffer, so the file holds a permutation of the items while the XOR checksum still matches")
	}
	c.Check(n >= 1, wi, nil, "WriteItem encodes through EncodeItem", "")
	// nothing but Open/Close touches the raw file
	for _, fn := range p.Funcs {
		if fn.Package().Pkg.Path() != modPath || fn.Signature.Recv() == nil {
			continue
		}
		if !strings.Contains(fname(fn), "rawFileWriter") {
			continue
		}
		for _, in := range p.Own(fn) {
			cc := callOf(in)
			if cc == nil {
				continue
			}
			for i, a := range cc.Args {
				if f, _ := loadedField(strip(a)); f == fFd {
					name := p.calleeName(in)
					okUse := strings.Contains(name, "Close") || strings.Contains(name, "NewWriter")
					_ = i
					c.Check(okUse, fn, in, "the raw file is used only to create the buffered stream and to be closed", "bytes are written to the shard file outside the buffered stream ("+name+")")
				}
			}
		}
	}
}

// C19.b checksum operand agreement.
func clChecksumOperands(c *Ctx) {
	p := c.P
	enc := p.Func("nitro", "Nitro", "EncodeItem")
	dec := p.Func("nitro", "Nitro", "DecodeItem")
	bytesFn := p.Func("nitro", "Item", "Bytes")
	type crc struct {
		in   *ssa.Call
		kind string // "prefix" or "payload"
		lo   int64
		hi   int64
	}
	collect := func(fn *ssa.Function) []crc {
		var out []crc
		for _, in := range p.Info(fn).Instrs {
			call, ok := in.(*ssa.Call)
			if !ok {
				continue
			}
			f := call.Call.StaticCallee()
			if f == nil || f.String() != "hash/crc32.ChecksumIEEE" {
				continue
			}
			a := call.Call.Args[0]
			if lo, hi, _, ok := sliceBounds(a); ok {
				out = append(out, crc{call, "prefix", lo, hi})
			} else if b, ok := strip(a).(*ssa.Call); ok && p.CallsAny(b, bytesFn) {
				out = append(out, crc{call, "payload", 0, 0})
			} else {
				out = append(out, crc{call, "?", 0, 0})
			}
		}
		return out
	}
	ecr, dcr := collect(enc), collect(dec)
	// writer: crc(prefix written) ^ crc(payload written)
	wp := prefixCodecs(p, enc)
	okW := len(ecr) == 2
	if okW {
		okW = ecr[0].kind == "prefix" && len(wp) == 1 && ecr[0].lo == wp[0].lo && ecr[0].hi == wp[0].hi && ecr[1].kind == "payload"
	}
	c.Check(okW, enc, nil, "writer checksum = crc(prefix bytes written) ^ crc(payload bytes written)", "the writer's checksum does not cover exactly the bytes it writes")
	xorOf := func(fn *ssa.Function, a, b ssa.Value) bool {
		for _, in := range p.Info(fn).Instrs {
			if x, ok := in.(*ssa.BinOp); ok && x.Op == token.XOR {
				if (feeds(a, x.X) && feeds(b, x.Y)) || (feeds(a, x.Y) && feeds(b, x.X)) {
					return true
				}
			}
		}
		return false
	}
	if okW {
		c.Check(xorOf(enc, ecr[0].in, ecr[1].in), enc, ecr[1].in, "writer combines the two CRCs with XOR", "")
	}
	// reader: every prefix decode has a crc over the same slice; payload crc over the bytes read
	rp := prefixCodecs(p, dec)
	for _, d := range rp {
		found := false
		for _, r := range dcr {
			if r.kind == "prefix" && r.lo == d.lo && r.hi == d.hi && (r.in.Block() == d.in.Block()) {
				found = true
			}
		}
		c.Check(found, dec, d.in, fmt.Sprintf("reader checksums the prefix bytes it decoded (%s)", d.method), "the reader's checksum covers other bytes than the prefix it consumed: intact files fail verification, or damaged prefixes pass")
	}
	pay := 0
	for _, r := range dcr {
		if r.kind == "payload" {
			pay++
		}
		c.Check(r.kind != "?", dec, r.in, "reader CRC operand is a prefix slice or the item bytes", "")
	}
	c.Check(pay == 1, dec, nil, "reader checksums the payload it read", "")
	// the checksum handed out together with a decoded item is crc(prefix) ^ crc(payload), the writer's formula
	dfi := p.Info(dec)
	for _, ret := range dfi.Returns() {
		if len(ret.Results) != 3 || isNilConst(strip(dfi.RetVal(ret, 0))) {
			continue
		}
		x, isXor := strip(dfi.RetVal(ret, 1)).(*ssa.BinOp)
		good := isXor && x.Op == token.XOR
		if good {
			side := func(v ssa.Value, kind string) bool {
				for _, r := range dcr {
					if r.kind == kind && feeds(r.in, v) {
						return true
					}
				}
				return false
			}
			good = (side(x.X, "prefix") && side(x.Y, "payload")) || (side(x.Y, "prefix") && side(x.X, "payload"))
		}
		c.Check(good, dec, ret, "reader returns crc(prefix) ^ crc(payload) with every decoded item",
			"on some path the reader combines the prefix and payload checksums differently from the writer (crc(prefix) ^ crc(payload)): an intact backup containing such an item fails verification, or the per-file checksum no longer covers it")
	}
	// per-file folding with XOR in WriteItem / ReadItem, reader excludes the terminator
	wi := p.Func("nitro", "rawFileWriter", "WriteItem")
	ri := p.Func("nitro", "rawFileReader", "ReadItem")
	fwc := p.Field("nitro", "rawFileWriter", "checksum")
	frc := p.Field("nitro", "rawFileReader", "checksum")
	fold := func(fn *ssa.Function, fv *types.Var, callee *ssa.Function) (*ssa.Store, bool) {
		for _, st := range p.storesTo(fn, fv) {
			x, ok := st.Val.(*ssa.BinOp)
			if !ok || x.Op != token.XOR {
				continue
			}
			isOld := func(v ssa.Value) bool { return loadsField(fv)(v) }
			isNew := func(v ssa.Value) bool {
				t, idx := extractOf(v)
				if t == nil {
					return false
				}
				call, ok := t.(*ssa.Call)
				return ok && p.CallsAny(call, callee) && (idx == 0 || idx == 1)
			}
			if (isOld(x.X) && isNew(x.Y)) || (isOld(x.Y) && isNew(x.X)) {
				return st, true
			}
		}
		return nil, false
	}
	_, okf := fold(wi, fwc, enc)
	c.Check(okf, wi, nil, "writer folds each item's checksum into the file checksum with XOR", "")
	st, okr := fold(ri, frc, dec)
	c.Check(okr, ri, nil, "reader folds each item's checksum into the file checksum with XOR", "")
	if okr {
		// C19.c reader half: the terminal nil item is excluded
		rfi := p.Info(ri)
		excl := rfi.Guarded(st, func(v ssa.Value, val bool) bool {
			cmp, ok := cmpOf(v, val)
			return ok && cmp.Op == token.NEQ && (isNilConst(cmp.X) || isNilConst(cmp.Y))
		})
		c.Check(excl, ri, st, "reader excludes the terminator from the file checksum", "the writer samples its checksum before Close appends the terminator, so a reader that folds the terminator's CRC in never matches")
	}
}

// feeds: value a flows into b through phis/conversions (or is b).
func feeds(a ssa.Value, b ssa.Value) bool {
	seen := map[ssa.Value]bool{}
	var walk func(v ssa.Value) bool
	walk = func(v ssa.Value) bool {
		v = strip(v)
		if v == a {
			return true
		}
		if seen[v] {
			return false
		}
		seen[v] = true
		if ph, ok := v.(*ssa.Phi); ok {
			for _, e := range ph.Edges {
				if walk(e) {
					return true
				}
			}
		}
		return false
	}
	return walk(b)
}

// C19.c writer half: the checksum that goes into a manifest is sampled before
// the writer is closed (Close folds the terminator into the writer checksum).
func clChecksumSampledBeforeClose(c *Ctx) {
	p := c.P
	fn := p.Func("nitro", "Nitro", "StoreToDisk")
	type site struct {
		f  *ssa.Function
		in ssa.Instruction
	}
	var sums, closes []site
	cellOfSite := map[ssa.Instruction]ssa.Value{}
	famC := map[*ssa.Function]bool{}
	for _, f := range WithAnon(fn) {
		famC[f] = true
	}
	isFW := func(t types.Type) bool { n, ok := t.(*types.Named); return ok && n.Obj().Name() == "FileWriter" }
	for _, f := range WithAnon(fn) {
		for _, in := range p.Info(f).Instrs {
			cc := callOf(in)
			if cc == nil {
				continue
			}
			// a shared helper that samples Checksum() of the writers it is given
			if h := cc.StaticCallee(); h != nil && !cc.IsInvoke() && h.Blocks != nil && h.Package() != nil && h.Package().Pkg.Path() == modPath && !famC[h] && p.helperCall(in) == nil {
				for _, hin := range p.Info(h).Instrs {
					hc := callOf(hin)
					if hc == nil || !hc.IsInvoke() || hc.Method.Name() != "Checksum" || !isFW(hc.Value.Type()) {
						continue
					}
					// receiver = element of a slice parameter of h
					if ld, ok := hc.Value.(*ssa.UnOp); ok {
						if ia, ok := ld.X.(*ssa.IndexAddr); ok {
							for i, prm := range h.Params {
								if ia.X == ssa.Value(prm) && i < len(cc.Args) {
									if al, ok := strip(cc.Args[i]).(*ssa.UnOp); ok {
										var cell ssa.Value
										switch a := al.X.(type) {
										case *ssa.FreeVar:
											cell = closureBinding(f, a)
										case *ssa.Alloc:
											cell = a
										}
										if cell != nil {
											sums = append(sums, site{f, in})
											cellOfSite[in] = cell
										}
									}
								}
							}
						}
					}
				}
				continue
			}
			if !cc.IsInvoke() {
				continue
			}
			if n, ok := cc.Value.Type().(*types.Named); !ok || n.Obj().Name() != "FileWriter" {
				continue
			}
			switch cc.Method.Name() {
			case "Checksum":
				sums = append(sums, site{f, in})
			case "Close":
				closes = append(closes, site{f, in})
			}
		}
	}
	if len(sums) < 2 || len(closes) < 2 {
		undecidedf("StoreToDisk: expected Checksum() sampling and Close() of data and delta writers, found %d/%d", len(sums), len(closes))
	}
	defers := deferredClosures(fn)
	fi := p.Info(fn)
	cnt := counter{}
	before := func(s, k site) bool {
		ds, sDef := defers[s.f]
		dk, kDef := defers[k.f]
		switch {
		case s.f == k.f:
			return p.Info(s.f).Dominates(s.in, k.in) && !p.Info(s.f).Reaches(k.in, s.in)
		case s.f == fn && kDef:
			return true // body runs before any deferred function
		case sDef && k.f == fn:
			return false
		case sDef && kDef:
			// LIFO: s runs before k iff s was deferred later
			return fi.Dominates(dk, ds)
		}
		return false
	}
	for _, s := range sums {
		ok := true
		for _, k := range closes {
			if cell, viaHelper := cellOfSite[s.in]; viaHelper {
				if sliceCellOfElem(k.f, callOf(k.in).Value) != cell {
					continue
				}
			} else if !sameWriters(p, s.f, callOf(s.in).Value, k.f, callOf(k.in).Value) {
				continue
			}
			if !before(s, k) {
				ok = false
			}
		}
		c.Check(ok, s.f, s.in, cnt.in(s.f, "writer checksum sampled before the writer is closed"),
			"Close appends the terminator and folds its CRC into the writer checksum; the reader excludes the terminator, so a checksum sampled after Close never matches and every restore fails with ErrCorruptSnapshot")
	}
	// the terminator is written by Close only
	wi := p.Func("nitro", "rawFileWriter", "WriteItem")
	cl := p.Func("nitro", "rawFileWriter", "Close")
	for _, s := range p.AllCallSites(wi) {
		if al, ok := strip(callArgs(s)[1]).(*ssa.Alloc); ok {
			_ = al
			c.Check(p.sameRoot(s.Parent(), cl), s.Parent(), s, "terminator (empty item) written only by Close", "a zero-length item in the middle of a shard is read as end of stream: the rest of the shard is silently dropped")
		}
	}
	// Close writes the terminator before flushing
	cfi := p.Info(cl)
	var term, flush ssa.Instruction
	for _, in := range cfi.Instrs {
		if p.IsCall(in, wi) {
			term = in
		}
		if cc := callOf(in); cc != nil && cc.StaticCallee() != nil && cc.StaticCallee().String() == "(*bufio.Writer).Flush" {
			flush = in
		}
	}
	c.Check(term != nil && flush != nil && cfi.Dominates(term, flush), cl, term, "Close appends the terminator, then flushes", "a shard without terminator cannot be told from a truncated one")
}

// sameWriters: both receivers are elements of the same captured slice variable.
func sameWriters(p *Prog, f1 *ssa.Function, r1 ssa.Value, f2 *ssa.Function, r2 ssa.Value) bool {
	c1, c2 := sliceCellOfElem(f1, r1), sliceCellOfElem(f2, r2)
	return c1 != nil && c1 == c2
}

func sliceCellOfElem(f *ssa.Function, recv ssa.Value) ssa.Value {
	ld, ok := strip(recv).(*ssa.UnOp)
	if !ok {
		return nil
	}
	ia, ok := ld.X.(*ssa.IndexAddr)
	if !ok {
		return nil
	}
	sl, ok := strip(ia.X).(*ssa.UnOp)
	if !ok {
		return nil
	}
	switch a := sl.X.(type) {
	case *ssa.FreeVar:
		return closureBinding(f, a)
	case *ssa.Alloc:
		return a
	}
	return nil
}

// ---- C19.d KV helpers ------------------------------------------------------

type sliceForm struct {
	base     ssa.Value
	lowC     int64
	lowPlus  ssa.Value
	highNil  bool
	highC    int64
	highPlus ssa.Value
	ok       bool
}

func constPlus(v ssa.Value) (int64, ssa.Value, bool) {
	if v == nil {
		return 0, nil, true
	}
	if n, ok := constInt(v); ok {
		return n, nil, true
	}
	if b, ok := strip(v).(*ssa.BinOp); ok && b.Op == token.ADD {
		if n, ok := constInt(b.X); ok {
			return n, strip(b.Y), true
		}
		if n, ok := constInt(b.Y); ok {
			return n, strip(b.X), true
		}
	}
	return 0, nil, false
}

func formOf(v ssa.Value) sliceForm {
	s, ok := strip(v).(*ssa.Slice)
	if !ok {
		return sliceForm{}
	}
	f := sliceForm{base: strip(s.X), ok: true}
	var ok1, ok2 bool
	f.lowC, f.lowPlus, ok1 = constPlus(s.Low)
	if s.High == nil {
		f.highNil = true
		ok2 = true
	} else {
		f.highC, f.highPlus, ok2 = constPlus(s.High)
	}
	f.ok = ok1 && ok2
	return f
}

// klenOf: v is int(LittleEndian.Uint16(base[0:2])); returns base.
func klenOf(v ssa.Value) (ssa.Value, string, bool) {
	call, ok := strip(v).(*ssa.Call)
	if !ok {
		return nil, "", false
	}
	// a pure private accessor wrapping the decode: evaluate its body with the
	// parameter bound to the actual argument
	if callee := call.Call.StaticCallee(); callee != nil && callee.Blocks != nil && len(callee.Blocks) == 1 && len(callee.Params) == 1 && len(call.Call.Args) == 1 {
		if _, isBO, _, _ := byteOrderCall(call); isBO == "" {
			if ret, isRet := callee.Blocks[0].Instrs[len(callee.Blocks[0].Instrs)-1].(*ssa.Return); isRet && len(ret.Results) == 1 {
				base, order, ok := klenOf(ret.Results[0])
				if ok && base == ssa.Value(callee.Params[0]) {
					return strip(call.Call.Args[0]), order, true
				}
				return nil, order, false
			}
		}
	}
	order, m, args, ok := byteOrderCall(call)
	if !ok || m != "Uint16" {
		return nil, order, false
	}
	f := formOf(args[1])
	if !f.ok || f.lowC != 0 || f.lowPlus != nil || f.highC != 2 || f.highPlus != nil || f.highNil {
		return nil, order, false
	}
	return f.base, order, true
}

func clKVHelpers(c *Ctx) {
	p := c.P
	to := p.Func("nitro", "", "KVToBytes")
	from := p.Func("nitro", "", "KVFromBytes")
	cmpf := p.Func("nitro", "", "CompareKV")
	// KVToBytes
	{
		var put ssa.Instruction
		var order string
		for _, in := range p.Info(to).Instrs {
			if o, m, _, ok := byteOrderCall(in); ok && m == "PutUint16" {
				put, order = in, o
			}
		}
		okPut := false
		if put != nil {
			_, _, args, _ := byteOrderCall(put)
			f := formOf(args[1])
			// value = uint16(len(k))
			ln, isCall := strip(args[2]).(*ssa.Call)
			okLen := isCall && isBuiltin(ln, "len") && strip(ln.Call.Args[0]) == strip(to.Params[0])
			okPut = f.ok && f.lowC == 0 && f.highC == 2 && f.lowPlus == nil && f.highPlus == nil && okLen
		}
		c.Check(okPut && order == "LittleEndian", to, put, "KVToBytes writes len(key) as 2-byte little-endian prefix in buf[0:2]", "the key length prefix written by KVToBytes is not what KVFromBytes/CompareKV decode")
		// appends: key then value after a 2-byte header
		var apps []*ssa.Call
		for _, in := range p.Info(to).Instrs {
			if call, ok := in.(*ssa.Call); ok && isBuiltin(call, "append") {
				apps = append(apps, call)
			}
		}
		okApp := len(apps) == 2 && strip(apps[0].Call.Args[1]) == strip(to.Params[0]) && strip(apps[1].Call.Args[1]) == strip(to.Params[1]) &&
			strip(apps[1].Call.Args[0]) == ssa.Value(apps[0])
		c.Check(okApp, to, nil, "KVToBytes appends key, then value", "key and value are laid out in another order than KVFromBytes expects")
		okHdr := false
		for _, in := range p.Info(to).Instrs {
			if ms, ok := in.(*ssa.MakeSlice); ok && isConstInt(2)(ms.Len) {
				okHdr = true
			}
		}
		c.Check(okHdr, to, nil, "KVToBytes reserves a 2-byte header", "")
	}
	// KVFromBytes: returns bs[2:2+klen], bs[2+klen:]
	{
		fi := p.Info(from)
		bs := strip(from.Params[0])
		for _, ret := range fi.Returns() {
			if len(ret.Results) != 2 {
				continue
			}
			k, v := formOf(fi.RetVal(ret, 0)), formOf(fi.RetVal(ret, 1))
			okK := k.ok && k.base == bs && k.lowC == 2 && k.lowPlus == nil && !k.highNil && k.highC == 2 && k.highPlus != nil
			okV := v.ok && v.base == bs && v.lowC == 2 && v.lowPlus != nil && v.highNil
			okLen := false
			order := ""
			if okK && okV && strip(k.highPlus) == strip(v.lowPlus) {
				var b ssa.Value
				b, order, okLen = klenOf(k.highPlus)
				okLen = okLen && b == bs
			}
			c.Check(okK && okV && okLen && order == "LittleEndian", from, ret, "KVFromBytes returns bs[2:2+klen] and bs[2+klen:] with klen = LittleEndian.Uint16(bs[0:2])", "KVFromBytes does not invert KVToBytes")
		}
	}
	// CompareKV: bytes.Compare(a[2:2+la], b[2:2+lb])
	{
		found := false
		for _, in := range p.Info(cmpf).Instrs {
			call, ok := in.(*ssa.Call)
			if !ok || call.Call.StaticCallee() == nil || call.Call.StaticCallee().String() != "bytes.Compare" {
				continue
			}
			found = true
			okAll := true
			for i := 0; i < 2; i++ {
				f := formOf(call.Call.Args[i])
				prm := ssa.Value(cmpf.Params[i])
				okI := f.ok && f.base == prm && f.lowC == 2 && f.lowPlus == nil && !f.highNil && f.highC == 2 && f.highPlus != nil
				if okI {
					b, order, okL := klenOf(f.highPlus)
					okI = okL && b == prm && order == "LittleEndian"
				}
				if !okI {
					okAll = false
				}
			}
			c.Check(okAll, cmpf, in, "CompareKV compares a[2:2+la] with b[2:2+lb], each length decoded little-endian from its own operand", "CompareKV does not order encoded pairs as bytes.Compare orders their keys (wrong operand, bounds or byte order)")
			// result returned as is
			for _, ret := range p.Info(cmpf).Returns() {
				c.Check(strip(p.Info(cmpf).RetVal(ret, 0)) == ssa.Value(call), cmpf, ret, "CompareKV returns the comparison of the keys", "")
			}
		}
		if !found {
			c.Check(false, cmpf, nil, "CompareKV compares the two keys with bytes.Compare", "")
		}
	}
}

// Terminator symmetry, both sides: every shard file ends with the terminator
// (also an empty one: the files are opened without O_TRUNC, the terminator is
// what cuts off the content of an earlier backup), and the reader never turns
// a read error (EOF before the terminator) into success.
func clTerminatorAlways(c *Ctx) {
	p := c.P
	wi := p.Func("nitro", "rawFileWriter", "WriteItem")
	cl := p.Func("nitro", "rawFileWriter", "Close")
	cfi := p.Info(cl)
	skip := cfi.PathAvoiding(nil, func(x ssa.Instruction) bool {
		r, ok := x.(*ssa.Return)
		return ok && r.Block() != cl.Recover
	}, func(x ssa.Instruction) bool { return p.IsCall(x, wi) })
	c.Check(skip == nil, cl, skip, "every path through the shard writer's Close appends the terminator",
		"a shard closed without terminator is indistinguishable from a truncated one; since shard files are not truncated on open, stale items of an earlier backup in the same directory follow the new content")
	ri := p.Func("nitro", "rawFileReader", "ReadItem")
	dec := p.Func("nitro", "Nitro", "DecodeItem")
	rfi := p.Info(ri)
	sites := p.CallSites(ri, dec)
	if len(sites) != 1 {
		undecidedf("rawFileReader.ReadItem: expected one DecodeItem call, found %d", len(sites))
	}
	ev, _ := errResult(sites[0])
	for _, ret := range rfi.Returns() {
		if len(ret.Results) != 2 {
			undecidedf("rawFileReader.ReadItem: unexpected result arity")
		}
		c.Check(ev != nil && strip(rfi.RetVal(ret, 1)) == ev, ri, ret, "ReadItem returns the decoder's error unchanged",
			"the reader replaces the decoder's error (e.g. EOF before the terminator) on some path: a shard cut off at an item boundary is accepted as complete")
	}
}

// Per-stream state of the shard codec: every writer/reader owns its scratch
// buffer, and a shard file is written from offset 0 (never appended to).
func clStreamPrivateState(c *Ctx) {
	p := c.P
	n := 0
	for _, typ := range []string{"rawFileWriter", "rawFileReader"} {
		fBuf := p.Field("nitro", typ, "buf")
		for _, w := range p.fieldWrites(fBuf) {
			n++
			v := strip(w.val)
			fresh := false
			switch x := v.(type) {
			case *ssa.MakeSlice:
				fresh = true
			case *ssa.Slice:
				if al, ok := strip(x.X).(*ssa.Alloc); ok && al.Heap {
					fresh = true // make([]byte, const) lowered to new [N]byte + slice
				}
			}
			c.Check(fresh, w.fn, w.in, "the codec scratch buffer of a "+typ+" is allocated for that stream",
				"several streams share one scratch buffer: StoreToDisk and LoadFromDisk drive their shard and delta streams from different goroutines, so one stream's length prefix is overwritten by another's before it is copied out — frames carry a foreign length")
		}
	}
	if n < 2 {
		undecidedf("codec scratch buffers: only %d assignments found", n)
	}
	// open flags of the shard writer
	wopen := p.Func("nitro", "rawFileWriter", "Open")
	found := false
	for _, in := range p.Info(wopen).Instrs {
		cc := callOf(in)
		if cc == nil || cc.StaticCallee() == nil || cc.StaticCallee().String() != "os.OpenFile" {
			continue
		}
		found = true
		fl, ok := constInt(cc.Args[1])
		osConst := func(name string) int64 {
			if pk := p.SSA.ImportedPackage("os"); pk != nil {
				if k, ok := pk.Pkg.Scope().Lookup(name).(*types.Const); ok {
					if v, exact := constant.Int64Val(constant.ToInt(k.Val())); exact {
						return v
					}
				}
			}
			undecidedf("os.%s not resolvable", name)
			return 0
		}
		oWRONLY, oRDWR, oAPPEND, oCREATE := osConst("O_WRONLY"), osConst("O_RDWR"), osConst("O_APPEND"), osConst("O_CREATE")
		c.Check(ok && fl&oAPPEND == 0 && fl&oCREATE != 0 && fl&(oWRONLY|oRDWR) != 0, wopen, in, "shard files are created/opened for writing from offset 0 (no O_APPEND)",
			"with O_APPEND a backup into a directory that already holds shard files is written after the old stream: the reader returns the old items up to the old terminator")
	}
	if !found {
		undecidedf("rawFileWriter.Open: os.OpenFile not found")
	}
}

package main

import (
	"fmt"
	"go/token"
	"go/types"
	"sort"

	"golang.org/x/tools/go/ssa"
)

// C18.a re-positioning resets the merge heap
func clMergeHeapReset(c *Ctx) {
	p := c.P
	fH := p.Field("skiplist", "MergeIterator", "h")
	n := 0
	for _, name := range []string{"SeekFirst", "Seek"} {
		fn := p.Func("skiplist", "MergeIterator", name)
		fi := p.Info(fn)
		var appends []*ssa.Store
		var resets []ssa.Instruction
		var appendCalls []ssa.Instruction // calls of a shared helper that appends one valid cursor
		isReset := func(st *ssa.Store) bool {
			if isNilConst(st.Val) {
				return true
			}
			if sl, ok := strip(st.Val).(*ssa.Slice); ok && sl.High != nil && isConstInt(0)(sl.High) {
				return true
			}
			if ms, ok := strip(st.Val).(*ssa.MakeSlice); ok && isConstInt(0)(ms.Len) {
				return true
			}
			return false
		}
		// calleeMust: in is a plain call of a same-package function (shared by the two positioning
		// operations) that executes an instruction satisfying pred on every path to its return
		calleeMust := func(in ssa.Instruction, pred func(h *ssa.Function, x ssa.Instruction) bool) bool {
			call, ok := in.(*ssa.Call)
			if !ok || call.Call.StaticCallee() == nil || p.helperCall(in) != nil {
				return false
			}
			h := call.Call.StaticCallee()
			if h.Blocks == nil || h.Package() != fn.Package() || h == fn {
				return false
			}
			hfi := p.Info(h)
			for _, ret := range hfi.Returns() {
				if !hfi.MustPrecede(ret, func(x ssa.Instruction) bool { return pred(h, x) }) {
					return false
				}
			}
			return len(hfi.Returns()) > 0
		}
		for _, in := range fi.Instrs {
			cc := callOf(in)
			if cc == nil || cc.StaticCallee() == nil || p.helperCall(in) != nil {
				continue
			}
			h := cc.StaticCallee()
			if h.Blocks == nil || h.Package() != fn.Package() || h == fn {
				continue
			}
			hfi := p.Info(h)
			if calleeMust(in, func(h *ssa.Function, x ssa.Instruction) bool {
				st, ok := x.(*ssa.Store)
				if !ok {
					return false
				}
				f, _ := addrField(st.Addr)
				return f == fH && isReset(st)
			}) {
				resets = append(resets, in)
			}
			for _, st := range p.storesTo(h, fH) {
				if call, ok := strip(st.Val).(*ssa.Call); ok && isBuiltin(call, "append") {
					valid := p.Func("skiplist", "Iterator", "Valid")
					c.Check(hfi.guardedByCall(st, true, valid), h, st, "a cursor enters the heap only if it is valid", "an exhausted cursor (standing on the tail sentinel) is pushed")
					appendCalls = append(appendCalls, in)
				}
			}
		}
		for _, st := range p.storesTo(fn, fH) {
			if call, ok := strip(st.Val).(*ssa.Call); ok && isBuiltin(call, "append") {
				appends = append(appends, st)
				continue
			}
			if isReset(st) {
				resets = append(resets, st)
			}
		}
		// insertions through the heap interface: heap.Push keeps the heap order, the slice's own
		// Push method only appends
		var orderedPush, rawPush []ssa.Instruction
		for _, in := range fi.Instrs {
			cc := callOf(in)
			if cc == nil || cc.StaticCallee() == nil || len(cc.Args) == 0 {
				continue
			}
			if f, _ := addrField(cc.Args[0]); f != fH {
				continue
			}
			switch {
			case cc.StaticCallee().String() == "container/heap.Push":
				orderedPush = append(orderedPush, in)
			case cc.StaticCallee().Name() == "Push" && cc.StaticCallee().Package() == fn.Package():
				rawPush = append(rawPush, in)
			}
		}
		if len(appends) == 0 && len(appendCalls) == 0 && len(orderedPush) == 0 && len(rawPush) == 0 {
			continue
		}
		n++
		ok := false
		var firstApp ssa.Instruction
		var apps []ssa.Instruction
		for _, a := range appends {
			apps = append(apps, a)
		}
		apps = append(apps, appendCalls...)
		apps = append(apps, rawPush...)
		needInit := len(apps) > 0
		apps = append(apps, orderedPush...)
		firstApp = apps[0]
		for _, r := range resets {
			all := true
			for _, a := range apps {
				if !fi.Dominates(r, a) || fi.inLoop(r) {
					all = false
				}
			}
			if all {
				ok = true
			}
		}
		for _, ret := range fi.Returns() {
			pre := fi.MustPrecede(ret, func(x ssa.Instruction) bool {
				for _, r := range resets {
					if r == x {
						return true
					}
				}
				return false
			})
			c.Check(pre, fn, ret, "every way out of a positioning call went through the reset and re-collection of the inputs",
				"a shortcut returns without repositioning the inputs (e.g. when the cursor already rests on the target): with equal items in several inputs the copies already consumed are not delivered again by the scan that follows")
		}
		c.Check(ok, fn, firstApp, "re-positioning resets the merge heap", "the cursors of the previous positioning stay in the heap: repositioning during a scan yields duplicates and walks stale cursors past the tail")
		// heap.Init after all pushes, then Next establishes the first element
		var hinit, nx ssa.Instruction
		mnext := p.Func("skiplist", "MergeIterator", "Next")
		isInit := func(x ssa.Instruction) bool {
			cc := callOf(x)
			return cc != nil && cc.StaticCallee() != nil && cc.StaticCallee().String() == "container/heap.Init"
		}
		for _, in := range fi.Instrs {
			if isInit(in) {
				hinit = in
			}
			if p.IsCall(in, mnext) {
				nx = in
			}
		}
		okInit := hinit != nil && nx != nil && fi.Dominates(hinit, nx)
		if hinit == nil && nx == nil {
			// both steps in one shared helper: Init, then Next, on every path
			for _, in := range fi.Instrs {
				if calleeMust(in, func(h *ssa.Function, x ssa.Instruction) bool {
					return p.IsCall(x, mnext) && p.Info(h).MustPrecede(x, isInit)
				}) {
					hinit, nx, okInit = in, in, true
				}
			}
		}
		for _, a := range apps {
			if hinit == nil || fi.Reaches(hinit, a) {
				okInit = false
			}
		}
		if !needInit {
			// every cursor entered through heap.Push: the order holds by construction; Next still takes the smallest
			okInit = nx != nil
			for _, a := range apps {
				if nx == nil || fi.Reaches(nx, a) {
					okInit = false
				}
			}
		}
		for _, a := range append(append([]ssa.Instruction{}, rawPush...), orderedPush...) {
			valid := p.Func("skiplist", "Iterator", "Valid")
			c.Check(fi.guardedByCall(a, true, valid), fn, a, "a cursor enters the heap only if it is valid", "an exhausted cursor (standing on the tail sentinel) is pushed")
		}
		c.Check(okInit, fn, hinit, "heap is initialised after all cursors were collected, then the smallest is taken", "the heap property is not established before the first element is popped: the first item is not the smallest")
		// every input iterator is positioned and pushed iff valid
		for _, a := range appends {
			valid := p.Func("skiplist", "Iterator", "Valid")
			c.Check(fi.guardedByCall(a, true, valid), fn, a, "a cursor enters the heap only if it is valid", "an exhausted cursor (standing on the tail sentinel) is pushed")
		}
	}
	if n < 2 {
		undecidedf("MergeIterator: SeekFirst/Seek do not collect cursors into mit.h")
	}
	// every input cursor is repositioned on every (re)positioning, unconditionally
	for _, e := range []struct{ meth, pos string }{{"SeekFirst", "SeekFirst"}, {"Seek", "Seek"}} {
		fn := p.Func("skiplist", "MergeIterator", e.meth)
		fi := p.Info(fn)
		pos := p.Func("skiplist", "Iterator", e.pos)
		sites := p.CallSites(fn, pos)
		ok := len(sites) >= 1
		for _, s := range sites {
			h := loopHeaderOf(s.Block())
			if h == nil {
				ok = false
				continue
			}
			// from the loop body entry, the back edge cannot be reached without passing the call
			var body *ssa.BasicBlock
			for _, sc := range h.Succs {
				if sc == s.Block() || fi.PathFromBlock(sc, func(x ssa.Instruction) bool { return x == s }, func(x ssa.Instruction) bool { return x.Block() == h }) != nil {
					body = sc
				}
			}
			if body == nil || fi.PathFromBlock(body, func(x ssa.Instruction) bool { return x.Block() == h }, func(x ssa.Instruction) bool { return x == s }) != nil {
				ok = false
			}
		}
		var at ssa.Instruction
		if len(sites) > 0 {
			at = sites[0]
		}
		c.Check(ok, fn, at, "every input cursor is repositioned, unconditionally", "some input lists are not repositioned (e.g. short-circuited once one input reported an exact match): their items are missing from the merged stream or arrive from a stale position")
	}
}

// C18.b pop / advance / re-push pairing in MergeIterator.Next
func clMergeNext(c *Ctx) {
	p := c.P
	fn := p.Func("skiplist", "MergeIterator", "Next")
	fi := p.Info(fn)
	fCurr := p.Field("skiplist", "MergeIterator", "curr")
	fN := p.Field("skiplist", "heapItem", "n")
	fIter := p.Field("skiplist", "heapItem", "iter")
	itNext := p.Func("skiplist", "Iterator", "Next")
	itValid := p.Func("skiplist", "Iterator", "Valid")
	itGetNode := p.Func("skiplist", "Iterator", "GetNode")
	var pop, push ssa.Instruction
	for _, in := range fi.Instrs {
		if cc := callOf(in); cc != nil && cc.StaticCallee() != nil {
			switch cc.StaticCallee().String() {
			case "container/heap.Pop":
				pop = in
			case "container/heap.Push":
				push = in
			}
		}
	}
	if !c.Check(pop != nil && push != nil, fn, nil, "Next pops the smallest cursor and may re-push it", "") {
		return
	}
	// curr = popped.n
	okCurr := false
	for _, st := range p.storesTo(fn, fCurr) {
		if f, _ := loadedField(st.Val); f == fN && fi.Dominates(pop, st) {
			okCurr = true
		}
	}
	c.Check(okCurr, fn, pop, "the current item is the node of the popped cursor", "Next does not yield the smallest item")
	// advanced exactly once, between pop and push
	adv := p.CallSites(fn, itNext)
	okAdv := len(adv) == 1 && fi.Dominates(pop, adv[0]) && fi.Dominates(adv[0], push) && !fi.inLoop(adv[0])
	if okAdv {
		f, _ := loadedField(callOf(adv[0]).Args[0])
		okAdv = f == fIter
	}
	c.Check(okAdv, fn, pop, "the popped cursor is advanced exactly once before it is re-pushed", "the cursor is re-pushed without advancing (the same item is returned for ever) or advanced twice (items skipped)")
	// re-push iff still valid, with its new node
	c.Check(fi.guardedByCall(push, true, itValid), fn, push, "re-push only while the cursor is valid", "an exhausted cursor is re-pushed")
	okNode := false
	for _, st := range p.storesTo(fn, fN) {
		if call, ok := strip(st.Val).(*ssa.Call); ok && p.CallsAny(call, itGetNode) && len(adv) == 1 && fi.Dominates(adv[0], call) && fi.Dominates(st, push) {
			okNode = true
		}
	}
	c.Check(okNode, fn, push, "the re-pushed entry carries the cursor's new node", "the heap orders the cursor by the node it already returned")
	// empty heap => not valid
	for _, ret := range fi.Returns() {
		if !fi.Reaches(pop, ret) {
			c.Check(len(p.storesTo(fn, fCurr)) >= 2, fn, ret, "an empty heap leaves the iterator invalid (curr = nil)", "")
		}
	}
}

// C18.c per-level chaining in Segment.Add and Builder.Assemble; C18.d allocator
func clBuilderChaining(c *Ctx) {
	p := c.P
	add := p.Func("skiplist", "Segment", "Add")
	asm := p.Func("skiplist", "Builder", "Assemble")
	setNext := p.Func("skiplist", "Node", "setNext")
	fTail := p.Field("skiplist", "Segment", "tail")
	fHead := p.Field("skiplist", "Segment", "head")
	fStore := p.Field("skiplist", "Builder", "store")
	fSHead := p.Field("skiplist", "Skiplist", "head")
	fSTail := p.Field("skiplist", "Skiplist", "tail")
	fNewNode := p.Field("skiplist", "Skiplist", "newNode")
	newLevel := p.Func("skiplist", "Skiplist", "NewLevel")
	maxLevel, _ := constantInt64(p.Const("skiplist", "MaxLevel"))

	// --- Segment.Add
	afi := p.Info(add)
	var x *ssa.Call
	for _, in := range afi.Instrs {
		if call, ok := in.(*ssa.Call); ok && call.Call.StaticCallee() == nil && !call.Call.IsInvoke() && lastField(call.Call.Value) == fNewNode {
			x = call
		}
	}
	if x == nil {
		c.Check(false, add, nil, "segment nodes are allocated through the store's allocator", "nodes of a bulk-built list do not come from the list's own allocator: Close frees them with the wrong allocator / they are invisible to its accounting")
		return
	}
	recvF, _ := loadedField(x.Call.Value)
	_ = recvF
	chain, _ := fieldPath(x.Call.Value)
	okStore := false
	for _, f := range chain {
		if f == fStore {
			okStore = true
		}
	}
	c.Check(okStore, add, x, "segment nodes are allocated through the builder's store allocator (C18.d)", "")
	lvl := strip(x.Call.Args[1])
	lc, isCall := lvl.(*ssa.Call)
	c.Check(isCall && p.CallsAny(lc, newLevel), add, x, "node level is drawn from the store's NewLevel", "bulk-built nodes bypass the list's height bookkeeping: searches do not descend from their levels")
	// loop over levels 0..itemLevel: phi l with bound l <= itemLevel
	elemOf := func(v ssa.Value, fld *types.Var) (ssa.Value, bool) { // v == *(&s.fld[l]) ; returns index
		ld, ok := strip(v).(*ssa.UnOp)
		if !ok || ld.Op != token.MUL {
			return nil, false
		}
		ia, ok := ld.X.(*ssa.IndexAddr)
		if !ok {
			return nil, false
		}
		if f, _ := loadedField(ia.X); f != fld {
			return nil, false
		}
		return strip(ia.Index), true
	}
	var link ssa.Instruction
	var lidx ssa.Value
	for _, s := range p.CallSites(add, setNext) {
		a := callOf(s).Args
		if idx, ok := elemOf(a[0], fTail); ok && strip(a[1]) == idx && strip(a[2]) == ssa.Value(x) && isFalseConst(a[3]) {
			link, lidx = s, idx
		}
	}
	if c.Check(link != nil, add, nil, "Add links the previous tail of each level to the new node", "appending to a segment does not chain the node at its levels") {
		c.Check(afi.Guarded(link, func(v ssa.Value, val bool) bool {
			cmp, ok := cmpOf(v, val)
			if !ok || cmp.Op != token.NEQ {
				return false
			}
			_, okX := elemOf(cmp.X, fTail)
			_, okY := elemOf(cmp.Y, fTail)
			return (okX && isNilConst(cmp.Y)) || (okY && isNilConst(cmp.X))
		}), add, link, "link only when the level already has a tail", "")
		// loop bound: l <= itemLevel, starting at 0
		ph, isPhi := lidx.(*ssa.Phi)
		okLoop := isPhi
		if isPhi {
			okLoop = false
			for _, r := range referrersOf(ph) {
				if b, ok := r.(*ssa.BinOp); ok && b.Op == token.LEQ && b.X == ssa.Value(ph) && strip(b.Y) == lvl {
					okLoop = true
				}
			}
			start := false
			for _, e := range ph.Edges {
				if isConstInt(0)(e) {
					start = true
				}
			}
			okLoop = okLoop && start
		}
		c.Check(okLoop, add, link, "Add chains the node at every level 0..its own level", "the node is not linked at all of its levels (or beyond them): upper levels skip it or point past it")
		// tail[l] = x on every iteration; head[l] = x when the level was empty
		tailSet, headSet := false, false
		for _, in := range afi.Instrs {
			st, ok := in.(*ssa.Store)
			if !ok || strip(st.Val) != ssa.Value(x) {
				continue
			}
			ia, ok := st.Addr.(*ssa.IndexAddr)
			if !ok || strip(ia.Index) != lidx {
				continue
			}
			f, _ := loadedField(ia.X)
			if f == fTail && afi.inLoop(st) {
				tailSet = true
			}
			if f == fHead {
				headSet = true
			}
		}
		c.Check(tailSet && headSet, add, link, "the node becomes the level's tail, and its head when the level was empty", "")
	}

	// --- Assemble
	sfi := p.Info(asm)
	segElem := func(v ssa.Value, fld *types.Var) bool { _, ok := elemOf(v, fld); return ok }
	localElem := func(v ssa.Value) bool { // element of a local []*Node buffer
		ld, ok := strip(v).(*ssa.UnOp)
		if !ok || ld.Op != token.MUL {
			return false
		}
		ia, ok := ld.X.(*ssa.IndexAddr)
		if !ok {
			return false
		}
		f, _ := loadedField(ia.X)
		return f == nil
	}
	var chainLink, headHook, tailHook ssa.Instruction
	for _, s := range p.CallSites(asm, setNext) {
		a := callOf(s).Args
		switch {
		case localElem(a[0]) && segElem(a[2], fHead):
			chainLink = s
		case lastField(a[0]) == fSHead && localElem(a[2]):
			headHook = s
		case localElem(a[0]) && lastField(a[2]) == fSTail:
			tailHook = s
		}
	}
	c.Check(chainLink != nil && sfi.inLoop(chainLink), asm, chainLink, "Assemble chains the running tail of each level to the next segment's head", "segments are not concatenated at some level")
	if chainLink != nil {
		c.Check(sfi.Guarded(chainLink, func(v ssa.Value, val bool) bool {
			cmp, ok := cmpOf(v, val)
			return ok && cmp.Op == token.NEQ && ((segElem(cmp.X, fHead) && isNilConst(cmp.Y)) || (segElem(cmp.Y, fHead) && isNilConst(cmp.X)))
		}) && sfi.Guarded(chainLink, func(v ssa.Value, val bool) bool {
			cmp, ok := cmpOf(v, val)
			return ok && cmp.Op == token.NEQ && ((localElem(cmp.X) && isNilConst(cmp.Y)) || (localElem(cmp.Y) && isNilConst(cmp.X)))
		}), asm, chainLink, "chain only when both the running tail and the segment's head exist at that level", "an empty segment (leading, trailing or in the middle) cuts the level chain or dereferences nil")
	}
	c.Check(headHook != nil && tailHook != nil, asm, nil, "Assemble hooks the head sentinel to the first node and the last node to the tail sentinel", "the assembled levels are not reachable from the head or do not end at the tail")
	for _, h := range []ssa.Instruction{headHook, tailHook} {
		if h == nil {
			continue
		}
		c.Check(sfi.inLoop(h) && sfi.Guarded(h, func(v ssa.Value, val bool) bool {
			cmp, ok := cmpOf(v, val)
			return ok && cmp.Op == token.NEQ && ((localElem(cmp.X) && isNilConst(cmp.Y)) || (localElem(cmp.Y) && isNilConst(cmp.X)))
		}), asm, h, "sentinel hook per level, only where the level is populated", "")
	}
	// both loops cover levels 0..MaxLevel
	bounds := 0
	for _, in := range sfi.Instrs {
		if b, ok := in.(*ssa.BinOp); ok && b.Op == token.LEQ && isConstInt(maxLevel)(b.Y) {
			bounds++
		}
		if b, ok := in.(*ssa.BinOp); ok && b.Op == token.LSS && isConstInt(maxLevel+1)(b.Y) {
			bounds++
		}
	}
	c.Check(bounds >= 2, asm, nil, "Assemble's level loops cover 0..MaxLevel", "the top level(s) are not chained or hooked")
	// running tail advances to the segment's tail; first head recorded once
	tailAdv, headRec := false, false
	for _, in := range sfi.Instrs {
		st, ok := in.(*ssa.Store)
		if !ok {
			continue
		}
		ia, ok := st.Addr.(*ssa.IndexAddr)
		if !ok {
			continue
		}
		if f, _ := loadedField(ia.X); f != nil {
			continue
		}
		if segElem(st.Val, fTail) {
			tailAdv = sfi.Guarded(st, func(v ssa.Value, val bool) bool {
				cmp, ok := cmpOf(v, val)
				return ok && cmp.Op == token.NEQ && (segElem(cmp.X, fTail) || segElem(cmp.Y, fTail))
			})
		}
		if segElem(st.Val, fHead) {
			headRec = true
		}
	}
	c.Check(tailAdv, asm, nil, "the running tail of a level advances to each non-empty segment's tail", "an empty segment resets the running tail: everything before it is cut off at that level")
	c.Check(headRec, asm, nil, "the first non-empty segment provides the level's head", "")
	// the assembled list is the builder's store
	for _, ret := range sfi.Returns() {
		f, _ := loadedField(sfi.RetVal(ret, 0))
		c.Check(f == fStore, asm, ret, "Assemble returns the builder's store", "")
	}
}

// Assemble decision table (C18.c / C14): Builder.Assemble is interpreted on three
// segments of heights -1 (empty) .. 2; for every level the links it makes must be
// exactly: head sentinel -> first segment that has the level, tail of each such
// segment -> head of the next one, last tail -> tail sentinel.
func clAssembleTable(c *Ctx) {
	p := c.P
	fn := p.Func("skiplist", "Builder", "Assemble")
	fHead := p.Field("skiplist", "Segment", "head")
	fTail := p.Field("skiplist", "Segment", "tail")
	fSHead := p.Field("skiplist", "Skiplist", "head")
	fSTail := p.Field("skiplist", "Skiplist", "tail")
	setNext := p.Func("skiplist", "Node", "setNext")
	type seg struct{ id int }
	type nd struct {
		seg, level int
		tail       bool
	}
	type link struct {
		from  interface{}
		level int64
		to    interface{}
	}
	var bad []string
	msg := ""
	heights := []int{-1, 0, 1, 2}
	total := 0
	for _, h0 := range heights {
		for _, h1 := range heights {
			for _, h2 := range heights {
				if msg != "" {
					break
				}
				hs := []int{h0, h1, h2}
				segs := []*seg{{0}, {1}, {2}}
				var links []link
				it := &interp{p: p}
				it.elemMem = map[elemAddr]ival{}
				it.loadElem = func(a elemAddr) (ival, bool) {
					switch b := a.base.(type) {
					case string:
						if b == "segments" && a.idx >= 0 && int(a.idx) < len(segs) {
							return ival{kind: 'p', h: segs[a.idx]}, true
						}
					case nd: // element of seg.head / seg.tail: base encodes (seg, which)
						s := b.seg
						if int(a.idx) <= hs[s] {
							return ival{kind: 'p', h: nd{s, int(a.idx), b.tail}}, true
						}
						return ival{kind: 'p', h: nil}, true
					}
					return ival{}, false
				}
				it.load = func(chain []*types.Var, root ssa.Value, env map[ssa.Value]ival) (ival, bool) {
					if len(chain) == 0 {
						return ival{kind: 'p', h: root}, true
					}
					switch chain[len(chain)-1] {
					case fSHead:
						return ival{kind: 'p', h: "HEAD"}, true
					case fSTail:
						return ival{kind: 'p', h: "TAIL"}, true
					}
					return ival{kind: 'p', h: chain[len(chain)-1]}, true
				}
				it.loadAddr = func(u *ssa.UnOp, env map[ssa.Value]ival) (ival, bool) {
					fa, ok := u.X.(*ssa.FieldAddr)
					if !ok {
						return ival{}, false
					}
					f := fieldVarOf(fa)
					if f != fHead && f != fTail {
						return ival{}, false
					}
					b := it.val(fa.X, env)
					sg, ok := b.h.(*seg)
					if !ok {
						outsidef("segment field read through an unknown base")
					}
					// the slice value: a handle that loadElem understands
					return ival{kind: 'p', h: nd{sg.id, -1, f == fTail}}, true
				}
				it.call = func(ci *ssa.Call, args []ival, env map[ssa.Value]ival) (ival, bool) {
					if p.CallsAny(ci, setNext) {
						links = append(links, link{args[0].h, args[1].i, args[2].h})
						return ival{kind: 'u'}, true
					}
					if isBuiltin(ci, "len") {
						return ival{kind: 'i', i: int64(len(segs))}, true
					}
					if p.helperCall(ci) != nil {
						return ival{}, false // a private helper of Assemble: interpreted in place
					}
					sig := ci.Call.Signature()
					if sig.Results().Len() == 0 {
						return ival{kind: 'u'}, true
					}
					return ival{kind: 'p', h: ci}, true
				}
				it.ignoreStore = func(*ssa.Store) bool { return true }
				env := map[ssa.Value]ival{fn.Params[1]: {kind: 'p', h: "segments"}}
				it.steps = -200000 // generous budget: 33 levels x 3 segments
				m := tryInterp(func() { it.Run(fn, fn.Blocks[0], 0, env) })
				if m != "" {
					msg = m
					break
				}
				total++
				// reference links
				want := map[string]bool{}
				for l := 0; l <= 2; l++ {
					var prev interface{} = "HEAD"
					any := false
					for s := 0; s < 3; s++ {
						if hs[s] >= l {
							want[fmt.Sprint(link{prev, int64(l), nd{s, l, false}})] = true
							prev = nd{s, l, true}
							any = true
						}
					}
					if any {
						want[fmt.Sprint(link{prev, int64(l), "TAIL"})] = true
					}
				}
				got := map[string]bool{}
				for _, lk := range links {
					got[fmt.Sprint(lk)] = true
				}
				for k := range want {
					if !got[k] {
						bad = append(bad, fmt.Sprintf("segment heights %v: missing link %s", hs, k))
					}
				}
				for k := range got {
					if !want[k] {
						bad = append(bad, fmt.Sprintf("segment heights %v: unexpected link %s", hs, k))
					}
				}
			}
		}
	}
	if msg != "" {
		c.Undecided(fn, nil, "Assemble decision table", "outside the fragment: "+msg)
		return
	}
	det := ""
	if len(bad) > 0 {
		sort.Strings(bad)
		det = fmt.Sprintf("%d deviations over %d scenarios; e.g. %s — after a bulk build or restore some level is not reachable from the head, does not end at the tail, or skips a segment", len(bad), total, bad[0])
	}
	c.Check(len(bad) == 0, fn, nil, "Assemble decision table: per level, head -> first segment having it, tails -> next heads, last tail -> tail sentinel", det)
}

package main

import (
	"fmt"
	"go/token"
	"go/types"

	"golang.org/x/tools/go/ssa"
)

// freshItem: v is an item allocated in this very function (result of the
// allocator entry points) and therefore not yet visible to anybody else.
func (p *Prog) freshItemIn(fn *ssa.Function, v ssa.Value) bool {
	allocItem := p.Func("nitro", "Nitro", "allocItem")
	newItem := p.Func("nitro", "Nitro", "newItem")
	seen := map[ssa.Value]bool{}
	var rec func(v ssa.Value) bool
	rec = func(v ssa.Value) bool {
		v = strip(v)
		if seen[v] {
			return true
		}
		seen[v] = true
		switch x := v.(type) {
		case *ssa.Call:
			return p.CallsAny(x, allocItem, newItem)
		case *ssa.Alloc:
			return true
		case *ssa.Phi:
			for _, e := range x.Edges {
				if !rec(e) {
					return false
				}
			}
			return true
		}
		return false
	}
	return rec(v)
}

// publishCalls: calls in fn that make `item` reachable by other goroutines.
func (p *Prog) publishCallsOf(fn *ssa.Function, item ssa.Value) []ssa.Instruction {
	pubs := []*ssa.Function{
		p.Func("skiplist", "Skiplist", "Insert"), p.Func("skiplist", "Skiplist", "Insert2"),
		p.Func("skiplist", "Skiplist", "Insert3"), p.Func("skiplist", "Skiplist", "Insert4"),
		p.Func("skiplist", "Segment", "Add"),
	}
	var out []ssa.Instruction
	for _, in := range p.CallSites(fn, pubs...) {
		for _, a := range callOf(in).Args {
			if strip(a) == strip(item) {
				out = append(out, in)
			}
		}
	}
	return out
}

// C01.c published items are immutable.
func clItemImmutable(c *Ctx) {
	p := c.P
	item := p.Named("nitro", "Item")
	fBorn := p.Field("nitro", "Item", "bornSn")
	fDead := p.Field("nitro", "Item", "deadSn")
	fLen := p.Field("nitro", "Item", "dataLen")
	allocItem := p.Func("nitro", "Nitro", "allocItem")
	delNode := p.Func("nitro", "Writer", "DeleteNode")
	bytesFn := p.Func("nitro", "Item", "Bytes")
	cnt := counter{}

	checkFresh := func(w fieldWrite, what string) {
		fi := p.Info(w.fn)
		if p.sameRoot(w.fn, allocItem) {
			c.Check(true, w.fn, w.in, cnt.in(w.fn, what+" in the allocator"), "")
			return
		}
		fresh := p.freshItemIn(w.fn, w.base)
		if !c.Check(fresh, w.fn, w.in, cnt.in(w.fn, what+" targets a fresh item"),
			"an item that may already be published (visible to snapshots and iterators) is modified in place: open snapshots no longer see the bytes/epochs they had") {
			return
		}
		for _, pub := range p.publishCallsOf(w.fn, w.base) {
			c.Check(!fi.Reaches(pub, w.in), w.fn, w.in, cnt.in(w.fn, what+" happens before the item is published"),
				"the item is written after it was inserted into the shared structure")
		}
	}
	for _, fv := range []*types.Var{fBorn, fDead, fLen} {
		for _, w := range p.fieldWrites(fv) {
			switch w.kind {
			case "store":
				checkFresh(w, "store to Item."+fv.Name())
			case "CAS":
				ok := fv == fDead && p.sameRoot(w.fn, delNode) && isConstInt(0)(atomicArgs(w.in)[1])
				c.Check(ok, w.fn, w.in, cnt.in(w.fn, "CAS on Item."+fv.Name()), "the only permitted in-place update of a published item is DeleteNode's CompareAndSwap(&deadSn, 0, currSn)")
			default:
				c.Check(false, w.fn, w.in, cnt.in(w.fn, "atomic "+w.kind+" on Item."+fv.Name()), "published item header is overwritten unconditionally")
			}
		}
	}
	for _, w := range p.structStores(item) {
		checkFresh(w, "whole-item store")
	}
	// writes through Bytes()
	for _, site := range p.AllCallSites(bytesFn) {
		call, ok := site.(*ssa.Call)
		if !ok {
			continue
		}
		fn := site.Parent()
		if fn.Package().Pkg.Path() != modPath {
			continue
		}
		var writes []ssa.Instruction
		var visit func(v ssa.Value, depth int)
		visit = func(v ssa.Value, depth int) {
			if depth > 4 {
				return
			}
			for _, r := range referrersOf(v) {
				switch x := r.(type) {
				case *ssa.IndexAddr:
					for _, r2 := range referrersOf(x) {
						if st, ok := r2.(*ssa.Store); ok && st.Addr == ssa.Value(x) {
							writes = append(writes, st)
						}
					}
				case *ssa.Slice:
					visit(x, depth+1)
				case *ssa.Phi:
					visit(x, depth+1)
				case ssa.CallInstruction:
					cc := x.Common()
					if b, ok := cc.Value.(*ssa.Builtin); ok {
						if b.Name() == "copy" && len(cc.Args) > 0 && cc.Args[0] == v {
							writes = append(writes, r)
						}
						continue
					}
					for _, cal := range p.Callees(r) {
						if cal.Pkg != nil && cal.Pkg.Pkg.Path() == "io" {
							writes = append(writes, r) // io.ReadFull & co fill the buffer
						}
					}
					if cc.IsInvoke() && (cc.Method.Name() == "Read") {
						writes = append(writes, r)
					}
				}
			}
		}
		visit(call, 0)
		for _, w := range writes {
			fresh := p.freshItemIn(fn, call.Call.Args[0])
			if c.Check(fresh, fn, w, cnt.in(fn, "write through Item.Bytes() targets a fresh item"),
				"the payload of an item that may be published is overwritten in place") {
				fi := p.Info(fn)
				for _, pub := range p.publishCallsOf(fn, call.Call.Args[0]) {
					c.Check(!fi.Reaches(pub, w), fn, w, cnt.in(fn, "payload write happens before the item is published"), "the payload is written after the item was inserted")
				}
			}
		}
	}
}

// Fresh items start alive: the allocator clears the delete stamp of every block
// it obtains from the user allocator (which may hand back recycled, non-zeroed memory).
func clAllocItemInitialises(c *Ctx) {
	p := c.P
	fn := p.Func("nitro", "Nitro", "allocItem")
	fi := p.Info(fn)
	fDead := p.Field("nitro", "Item", "deadSn")
	fLen := p.Field("nitro", "Item", "dataLen")
	fMalloc := p.Field("nitro", "Config", "mallocFun")
	n := 0
	for _, in := range fi.Instrs {
		call, ok := in.(*ssa.Call)
		if !ok || call.Call.StaticCallee() != nil || call.Call.IsInvoke() || lastField(call.Call.Value) != fMalloc {
			continue
		}
		n++
		fBornX := p.Field("nitro", "Item", "bornSn")
		bornCleared := fi.PathAvoiding(in, isReturn, func(x ssa.Instruction) bool {
			st, ok := x.(*ssa.Store)
			if !ok {
				return false
			}
			f, _ := addrField(st.Addr)
			return f == fBornX && isConstInt(0)(st.Val)
		}) == nil
		c.Check(bornCleared, fn, in, "item from the user allocator starts with bornSn == 0",
			"restored items keep the birth epoch 0 they are allocated with; with a recycling allocator a stale bornSn makes a restored item invisible to the restored snapshot")
		cleared := fi.PathAvoiding(in, isReturn, func(x ssa.Instruction) bool {
			st, ok := x.(*ssa.Store)
			if !ok {
				return false
			}
			f, _ := addrField(st.Addr)
			return f == fDead && isConstInt(0)(st.Val)
		}) == nil
		c.Check(cleared, fn, in, "item from the user allocator starts with deadSn == 0",
			"blocks from the configured allocator are not zeroed (a recycling allocator returns the bytes of a previously freed item): a new item inherits a stale delete stamp and is born dead — invisible to lookups and snapshots although Put succeeded and was counted")
	}
	if n == 0 {
		undecidedf("allocItem: call of the configured malloc function not found")
	}
	okLen := fi.PathAvoiding(nil, isReturn, func(x ssa.Instruction) bool {
		st, ok := x.(*ssa.Store)
		if !ok {
			return false
		}
		f, _ := addrField(st.Addr)
		return f == fLen
	}) == nil
	c.Check(okLen, fn, nil, "every item records its data length", "")
}

// C01.d epoch capture in NewSnapshot.
// epoch numbers stamped into items, captured by snapshots and used as GC
// frontier are compared with each other everywhere: one type for all of them
func clEpochTypesAgree(c *Ctx) {
	p := c.P
	ref := p.Field("nitro", "Nitro", "currSn")
	bad := ""
	for _, f := range []*types.Var{p.Field("nitro", "Item", "bornSn"), p.Field("nitro", "Item", "deadSn"),
		p.Field("nitro", "Snapshot", "sn"), p.Field("nitro", "Nitro", "lastGCSn")} {
		if !types.Identical(f.Type(), ref.Type()) {
			bad += fmt.Sprintf(" %s is %s;", f.Name(), f.Type())
		}
	}
	b, ok := ref.Type().Underlying().(*types.Basic)
	if !ok || b.Info()&types.IsInteger == 0 || b.Info()&types.IsUnsigned == 0 {
		bad += fmt.Sprintf(" currSn is %s, not an unsigned integer;", ref.Type())
	} else if sz := types.SizesFor("gc", "amd64").Sizeof(ref.Type()); sz < 4 {
		bad += fmt.Sprintf(" currSn is only %d bytes wide;", sz)
	}
	// the in-memory length of an item is as wide as the length prefix of the current file format
	if fLen := p.Field("nitro", "Item", "dataLen"); true {
		sz := types.SizesFor("gc", "amd64").Sizeof(fLen.Type())
		c.Check(sz >= 4, p.Func("nitro", "Nitro", "allocItem"), nil, "Item.dataLen holds at least 32 bits (the v1 length prefix)",
			fmt.Sprintf("Item.dataLen is %s: items of 64 KiB or more are stored with their length modulo 2^%d — Bytes() returns a prefix, distinct large items compare equal", fLen.Type(), 8*sz))
	}
	c.Check(bad == "", p.Func("nitro", "Nitro", "NewSnapshot"), nil, "epoch numbers (Item.bornSn/deadSn, Snapshot.sn, Nitro.currSn, lastGCSn) share one unsigned type of at least 32 bits",
		"currSn is "+ref.Type().String()+";"+bad+" the narrower number wraps first: visibility (bornSn <= sn < deadSn) and the in-order GC frontier compare numbers from different rounds")
}

func clEpochCapture(c *Ctx) {
	clEpochTypesAgree(c)
	p := c.P
	fn := p.Func("nitro", "Nitro", "NewSnapshot")
	fi := p.Info(fn)
	fSn := p.Field("nitro", "Snapshot", "sn")
	fCount := p.Field("nitro", "Snapshot", "count")
	fRef := p.Field("nitro", "Snapshot", "refCount")
	fCurr := p.Field("nitro", "Nitro", "currSn")
	fItems := p.Field("nitro", "Nitro", "itemsCount")
	fSnaps := p.Field("nitro", "Nitro", "snapshots")
	getCurr := p.Func("nitro", "Nitro", "GetCurrSn")
	itemsCount := p.Func("nitro", "Nitro", "ItemsCount")
	slInsert := p.Func("skiplist", "Skiplist", "Insert")
	slInsert2 := p.Func("skiplist", "Skiplist", "Insert2")

	var inc ssa.Instruction
	for _, in := range fi.Instrs {
		if k, on := atomicOnField(in, fCurr); on && (k == "Add" || k == "Store" || k == "CAS") {
			if inc != nil {
				c.Check(false, fn, in, "single epoch increment", "NewSnapshot advances the epoch more than once")
			}
			inc = in
		}
	}
	if !c.Check(inc != nil, fn, nil, "atomic epoch increment", "NewSnapshot does not advance currSn atomically") {
		return
	}
	if k, _ := atomicOp(inc); k == "Add" {
		c.Check(isConstInt(1)(atomicArgs(inc)[1]), fn, inc, "epoch advances by exactly one", "the collector's in-order rule (sn == lastGCSn+1) requires consecutive snapshot numbers")
	}
	isCurr := func(v ssa.Value) (ssa.Instruction, bool) {
		call, ok := strip(v).(*ssa.Call)
		if !ok {
			return nil, false
		}
		if p.CallsAny(call, getCurr) {
			return call, true
		}
		if k, on := atomicOnField(call, fCurr); on && k == "Load" {
			return call, true
		}
		return nil, false
	}
	for _, st := range p.storesTo(fn, fSn) {
		rd, ok := isCurr(st.Val)
		// equivalent form: (result of the increment) - 1
		if b, isB := strip(st.Val).(*ssa.BinOp); !ok && isB && b.Op == token.SUB && strip(b.X) == inc.(ssa.Value) && isConstInt(1)(b.Y) {
			if k, _ := atomicOp(inc); k == "Add" {
				c.Check(isFreshBase(mustBase(st.Addr)), fn, st, "snapshot number = current epoch", "")
				continue
			}
		}
		if c.Check(ok && isFreshBase(mustBase(st.Addr)), fn, st, "snapshot number = current epoch", "the snapshot is not numbered with the epoch current at its creation") {
			c.Check(fi.Dominates(rd, inc), fn, st, "epoch read before it is incremented", "the snapshot gets the number of the NEXT epoch: items put after its creation become visible in it")
		}
	}
	c.Check(len(p.storesTo(fn, fSn)) == 1, fn, nil, "snapshot number assigned once", "Snapshot.sn must be set exactly once at creation")
	for _, st := range p.storesTo(fn, fRef) {
		c.Check(isConstInt(1)(st.Val), fn, st, "new snapshot starts with one reference", "the creator's reference must be exactly 1")
	}
	for _, st := range p.storesTo(fn, fCount) {
		call, ok := strip(st.Val).(*ssa.Call)
		isIC := ok && (p.CallsAny(call, itemsCount) || func() bool { k, on := atomicOnField(call, fItems); return on && k == "Load" }())
		if c.Check(isIC, fn, st, "snapshot count = global item count", "Count() is not taken from the merged item count") {
			merged := true
			for _, in := range fi.Instrs {
				if k, on := atomicOnField(in, fItems); on && k == "Add" && fi.Reaches(call, in) {
					merged = false
				}
			}
			c.Check(merged, fn, st, "count read after all writers were merged", "Count() is sampled before some writer's delta is added")
		}
	}
	// registered in the live set before the epoch advances
	var ins ssa.Instruction
	for _, in := range p.CallSites(fn, slInsert, slInsert2) {
		if lastField(callOf(in).Args[0]) == fSnaps {
			ins = in
		}
	}
	c.Check(ins != nil && fi.PathAvoiding(nil, isReturn, func(x ssa.Instruction) bool { return x == ins }) == nil, fn, nil, "snapshot inserted into the live set on every path",
		"a new snapshot is not registered in Nitro.snapshots: the shutdown wait and GetSnapshots ignore it")
}

func mustBase(addr ssa.Value) ssa.Value {
	_, b := addrField(addr)
	return b
}

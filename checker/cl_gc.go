package main

import (
	"fmt"
	"go/token"
	"go/types"

	"golang.org/x/tools/go/ssa"
)

// sendsOn lists all channel sends (and select send states) whose channel is
// read from field fv, module wide.
func (p *Prog) sendsOn(fv *types.Var) []ssa.Instruction {
	var out []ssa.Instruction
	for _, fn := range p.Funcs {
		for _, in := range p.Own(fn) {
			switch x := in.(type) {
			case *ssa.Send:
				if lastField(x.Chan) == fv {
					out = append(out, in)
				}
			case *ssa.Select:
				for _, st := range x.States {
					if st.Dir == types.SendOnly && lastField(st.Chan) == fv {
						out = append(out, in)
					}
				}
			}
		}
	}
	return out
}

// closesOf lists close(ch) calls with ch read from field fv.
func (p *Prog) closesOf(fv *types.Var) []ssa.Instruction {
	var out []ssa.Instruction
	for _, fn := range p.Funcs {
		for _, in := range p.Own(fn) {
			if isBuiltin(in, "close") && lastField(callOf(in).Args[0]) == fv {
				out = append(out, in)
			}
		}
	}
	return out
}

// In-order collection (C01.b, C06.c, C08): a retired snapshot's garbage list
// is handed to the collection workers only when it is the successor of the
// last collected one, by the single collector, which records it and removes
// it from the retired set.
func clCollectorGuard(c *Ctx) {
	p := c.P
	fGcchan := p.Field("nitro", "Nitro", "gcchan")
	fSn := p.Field("nitro", "Snapshot", "sn")
	fLast := p.Field("nitro", "Nitro", "lastGCSn")
	fGclist := p.Field("nitro", "Snapshot", "gclist")
	fGcs := p.Field("nitro", "Nitro", "gcsnapshots")
	getLast := p.Func("nitro", "Nitro", "GetLastGCSn")
	collect := p.Func("nitro", "Nitro", "collectDead")
	closeFn := p.Func("nitro", "Nitro", "Close")
	slDeleteNode := p.Func("skiplist", "Skiplist", "DeleteNode")
	slDelete := p.Func("skiplist", "Skiplist", "Delete")

	var isLast func(v ssa.Value) bool
	isLast = func(v ssa.Value) bool {
		v = strip(v)
		// a local copy tracking the last collected number across iterations
		if ph, ok := v.(*ssa.Phi); ok {
			for _, e := range ph.Edges {
				if !(loadsField(fSn)(e) || (strip(e) != ssa.Value(ph) && isLast(e))) {
					return false
				}
			}
			return true
		}
		if call, ok := v.(*ssa.Call); ok {
			if p.CallsAny(call, getLast) {
				return true
			}
			if k, on := atomicOnField(call, fLast); on && k == "Load" {
				return true
			}
		}
		return false
	}
	isLastPlus1 := func(v ssa.Value) bool {
		b, ok := strip(v).(*ssa.BinOp)
		if !ok || b.Op != token.ADD {
			return false
		}
		return (isLast(b.X) && isConstInt(1)(b.Y)) || (isLast(b.Y) && isConstInt(1)(b.X))
	}
	snMinus1 := func(v ssa.Value) bool {
		b, ok := strip(v).(*ssa.BinOp)
		return ok && b.Op == token.SUB && loadsField(fSn)(b.X) && isConstInt(1)(b.Y)
	}

	sends := p.sendsOn(fGcchan)
	for _, s := range sends {
		c.Check(p.sameRoot(s.Parent(), collect), s.Parent(), s, "send on gcchan", "garbage lists may be handed to the collection workers only by the in-order collector collectDead")
	}
	for _, cl := range p.closesOf(fGcchan) {
		c.Check(p.sameRoot(cl.Parent(), closeFn), cl.Parent(), cl, "close(gcchan)", "gcchan may be closed only by (*Nitro).Close")
	}
	fi := p.Info(collect)
	for _, s := range sends {
		if !p.sameRoot(s.Parent(), collect) {
			continue
		}
		send, ok := s.(*ssa.Send)
		if !ok {
			c.Undecided(collect, s, "send on gcchan", "select-send is not a recognised hand-off form")
			continue
		}
		// the snapshot whose list is sent
		fl, snapBase := loadedField(send.X)
		if !c.Check(fl == fGclist, collect, s, "value sent is a snapshot's gclist", "the value sent on gcchan is not the gclist field of a retired snapshot") {
			continue
		}
		snapBase = strip(snapBase)
		sameSnap := func(v ssa.Value) bool {
			f, b := loadedField(v)
			return f == fSn && strip(b) == snapBase
		}
		guard := fi.guardedByCmp(s, token.EQL, sameSnap, isLastPlus1) ||
			fi.guardedByCmp(s, token.EQL, func(v ssa.Value) bool {
				b, ok := strip(v).(*ssa.BinOp)
				return ok && snMinus1(v) && sameSnap(b.X)
			}, isLast)
		// the frontier must be re-read (or advanced) in every iteration
		if guard {
			fresh := true
			head := loopHeaderOf(s.Block())
			for _, f := range fi.FactsAt(s) {
				cmp, ok := cmpOf(f.V, f.Val)
				if !ok || cmp.Op != token.EQL {
					continue
				}
				for _, side := range []ssa.Value{cmp.X, cmp.Y} {
					if !isLastPlus1(side) && !isLast(side) {
						continue
					}
					// find the read of lastGCSn feeding this side
					var reads []ssa.Instruction
					var walk func(v ssa.Value, d int)
					walk = func(v ssa.Value, d int) {
						v = strip(v)
						if d > 4 {
							return
						}
						switch x := v.(type) {
						case *ssa.BinOp:
							walk(x.X, d+1)
							walk(x.Y, d+1)
						case *ssa.Call:
							reads = append(reads, x)
						case *ssa.Phi:
							// a tracked copy: fine if it sits in the loop header and is updated from the released sn
							if head != nil && x.Block() == head {
								return
							}
							reads = append(reads, x)
						}
					}
					walk(side, 0)
					for _, r := range reads {
						if head != nil {
							inLoop := false
							for _, pr := range head.Preds {
								if (head.Dominates(pr) || head == pr) && inNaturalLoop(head, pr, r.Block()) {
									inLoop = true
								}
							}
							if !inLoop {
								fresh = false
							}
						}
					}
				}
			}
			c.Check(fresh, collect, s, "collection frontier (lastGCSn+1) is re-evaluated for every retired snapshot",
				"the frontier is computed once before the loop and never advanced: a pass releases one snapshot and stops at the next although it is the new frontier, so a backlog of closed snapshots is never drained (garbage stranded)")
		}
		c.Check(guard, collect, s, "send guarded by sn == lastGCSn+1",
			"the garbage list of a retired snapshot is released although it is not the successor of the last collected snapshot: an older snapshot that is still open can lose items it sees")
		// lastGCSn := sn on the same path
		recorded := false
		for _, in := range fi.Instrs {
			if k, on := atomicOnField(in, fLast); on && k == "Store" {
				val := atomicArgs(in)[1]
				if sameSnap(val) && (fi.Dominates(in, s) || fi.MustFollow(s, func(x ssa.Instruction) bool { return x == in })) {
					recorded = true
				}
			}
		}
		c.Check(recorded, collect, s, "lastGCSn recorded with the released snapshot's sn", "lastGCSn is not advanced (atomically) to the released snapshot on every path through the hand-off")
		// removed from the retired set afterwards
		removed := fi.MustFollow(s, func(x ssa.Instruction) bool {
			if !p.IsCall(x, slDeleteNode, slDelete) {
				return false
			}
			return lastField(callOf(x).Args[0]) == fGcs
		}) || fi.MustPrecede(s, func(x ssa.Instruction) bool {
			return p.IsCall(x, slDeleteNode, slDelete) && lastField(callOf(x).Args[0]) == fGcs && fi.Dominates(x, s) && !fi.inLoopBetween(x, s)
		})
		c.Check(removed, collect, s, "released snapshot removed from gcsnapshots", "a released snapshot stays in the retired set: it would be released again by the next pass")
	}
}

// inLoopBetween is a conservative helper: true when a and b are not in the
// same basic block (so that "a precedes b" might refer to different loop
// iterations).
func (fi *FuncInfo) inLoopBetween(a, b ssa.Instruction) bool { return a.Block() != b.Block() }

// GC try-lock (C06.c): collectDead runs only under the isGCRunning try-lock
// and the lock is dropped on every path.
func clGCTryLock(c *Ctx) {
	p := c.P
	collect := p.Func("nitro", "Nitro", "collectDead")
	fRun := p.Field("nitro", "Nitro", "isGCRunning")
	sites := p.AllCallSites(collect)
	gcFn := p.Func("nitro", "Nitro", "GC")
	inGC := false
	for _, s := range sites {
		if p.sameRoot(s.Parent(), gcFn) {
			inGC = true
		}
	}
	c.Check(inGC, gcFn, nil, "GC() runs the in-order collector", "GC() no longer collects: retired snapshots are never released")
	for _, s := range sites {
		fn := s.Parent()
		fi := p.Info(fn)
		held := fi.Guarded(s, func(v ssa.Value, val bool) bool {
			if !val {
				return false
			}
			call, ok := fi.resolveCell(v).(*ssa.Call)
			if !ok {
				return false
			}
			k, on := atomicOnField(call, fRun)
			return on && k == "CAS" && isConstInt(0)(atomicArgs(call)[1]) && isConstInt(1)(atomicArgs(call)[2])
		})
		c.Check(held, fn, s, "collectDead under isGCRunning try-lock", "the in-order collector can run concurrently with itself (two collectors could release the same snapshot twice or out of order)")
		released := fi.MustFollow(s, func(x ssa.Instruction) bool {
			k, on := atomicOnField(x, fRun)
			if !on {
				return false
			}
			args := atomicArgs(x)
			return (k == "CAS" && isConstInt(0)(args[2])) || (k == "Store" && isConstInt(0)(args[1]))
		})
		c.Check(released, fn, s, "isGCRunning released after collectDead", "a path leaves GC holding the collector flag: no later snapshot is ever collected")
	}
	// every path that WON the try-lock in GC() gives it back (also one that returns before collecting)
	gfi := p.Info(gcFn)
	isRelease := func(x ssa.Instruction) bool {
		k, on := atomicOnField(x, fRun)
		if !on {
			return false
		}
		args := atomicArgs(x)
		return (k == "CAS" && isConstInt(0)(args[2])) || (k == "Store" && isConstInt(0)(args[1]))
	}
	for _, in := range gfi.Instrs {
		k, on := atomicOnField(in, fRun)
		if !on || k != "CAS" || !isConstInt(0)(atomicArgs(in)[1]) || !isConstInt(1)(atomicArgs(in)[2]) {
			continue
		}
		acq := in.(ssa.Value)
		leak := gfi.PathAvoidingEdges(in, func(x ssa.Instruction) bool {
			r, ok := x.(*ssa.Return)
			return ok && r.Block() != gcFn.Recover
		}, isRelease, func(pb, sb *ssa.BasicBlock) bool {
			for f := range gfi.EdgeFactSet(pb, sb) {
				if (f.V == acq || gfi.resolveCell(f.V) == acq) && !f.Val {
					return true // the losing side holds nothing
				}
			}
			return false
		})
		c.Check(leak == nil, gcFn, in, "every path of GC() that won the isGCRunning try-lock releases it", "a path returns from GC() with the collector flag still set: no later Close or GC() ever collects again")
	}
}

// Snapshot.Close (C06.c / C08.b): the retire block is decided by the
// decrement's own result and does delete -> insert -> GC in this order.
func clSnapshotClose(c *Ctx) {
	p := c.P
	fn := p.Func("nitro", "Snapshot", "Close")
	fi := p.Info(fn)
	fRef := p.Field("nitro", "Snapshot", "refCount")
	fSnaps := p.Field("nitro", "Nitro", "snapshots")
	fGcs := p.Field("nitro", "Nitro", "gcsnapshots")
	slDelete := p.Func("skiplist", "Skiplist", "Delete")
	slInsert := p.Func("skiplist", "Skiplist", "Insert")
	slInsert2 := p.Func("skiplist", "Skiplist", "Insert2")
	gc := p.Func("nitro", "Nitro", "GC")

	var dec *ssa.Call
	for _, in := range fi.Instrs {
		if k, on := atomicOnField(in, fRef); on && k == "Add" {
			if n, ok := constInt(atomicArgs(in)[1]); ok && n == -1 {
				if dec != nil {
					c.Check(false, fn, in, "single decrement", "Close decrements the reference count more than once")
				}
				dec, _ = in.(*ssa.Call)
			}
		}
	}
	if !c.Check(dec != nil, fn, nil, "atomic decrement of refCount", "Close does not decrement the reference count atomically by one") {
		return
	}
	c.Check(fi.PathAvoiding(nil, isReturn, func(x ssa.Instruction) bool { return x == ssa.Instruction(dec) }) == nil && !fi.inLoop(dec),
		fn, dec, "decrement on every path exactly once", "some path through Close does not decrement, or decrements repeatedly")
	byOwnResult := func(at ssa.Instruction) bool {
		return fi.guardedByCmp(at, token.EQL, isValue(dec), isConstInt(0))
	}
	var del, ins, gcCall ssa.Instruction
	for _, in := range fi.Instrs {
		switch {
		case p.IsCall(in, slDelete) && lastField(callOf(in).Args[0]) == fSnaps:
			del = in
		case p.IsCall(in, slInsert, slInsert2) && lastField(callOf(in).Args[0]) == fGcs:
			ins = in
		case p.IsCall(in, gc):
			gcCall = in
		}
	}
	if !c.Check(del != nil && ins != nil && gcCall != nil, fn, nil, "retire block: delete from snapshots, insert into gcsnapshots, GC",
		"the last Close does not move the snapshot from the live set to the retired set and trigger a collection") {
		return
	}
	for _, e := range []struct {
		in   ssa.Instruction
		name string
	}{{del, "snapshots.Delete"}, {ins, "gcsnapshots.Insert"}, {gcCall, "GC()"}} {
		c.Check(byOwnResult(e.in), fn, e.in, e.name+" decided by the decrement's own result == 0",
			"the retire step is not guarded by (AddInt32(&refCount,-1) == 0): deciding on a re-load lets two closers (or none) retire the snapshot")
	}
	c.Check(fi.MustFollow(ins, func(x ssa.Instruction) bool { return x == gcCall }), fn, gcCall, "every retirement triggers a collection pass",
		"a retired snapshot does not always trigger GC(): when the pass that is running misses it (try-lock busy) and no later Close calls GC, the collector never advances again")
	c.Check(fi.Dominates(del, ins) && fi.Dominates(ins, gcCall), fn, ins, "retire order delete < insert < GC", "the snapshot must leave the live set before it enters the retired set, and the collection must be triggered after that")
	// the retired object is the receiver itself
	self := fn.Params[0]
	c.Check(strip(callOf(del).Args[1]) == ssa.Value(self) && strip(callOf(ins).Args[1]) == ssa.Value(self), fn, ins, "retires the receiver snapshot", "Close moves a different object than the snapshot being closed")
}

// Collection worker (C06.d, C04.d, C05.a): every node of a released list is
// logged (delta), unlinked, and only then the list is attached to a session.
func clCollectionWorker(c *Ctx, want string) {
	p := c.P
	fn := p.Func("nitro", "Nitro", "collectionWorker")
	fi := p.Info(fn)
	fGcchan := p.Field("nitro", "Nitro", "gcchan")
	fStore := p.Field("nitro", "Nitro", "store")
	slDeleteNode := p.Func("skiplist", "Skiplist", "DeleteNode")
	getLink := p.Func("skiplist", "Node", "GetLink")
	nodeItem := p.Func("skiplist", "Node", "Item")
	flush := p.Func("skiplist", "AccessBarrier", "FlushSession")
	deltaWrite := p.Func("nitro", "Writer", "doDeltaWrite")

	// the list head received from gcchan
	var head ssa.Value
	for _, in := range fi.Instrs {
		switch x := in.(type) {
		case *ssa.Select:
			for i, st := range x.States {
				if st.Dir == types.RecvOnly && lastField(st.Chan) == fGcchan {
					// Extract index: 0 = index, 1 = recvOk, 2.. = received values in order of recv states
					k := 2
					for j := 0; j < i; j++ {
						if x.States[j].Dir == types.RecvOnly {
							k++
						}
					}
					for _, r := range referrersOf(x) {
						if e, ok := r.(*ssa.Extract); ok && e.Index == k {
							head = e
						}
					}
				}
			}
		case *ssa.UnOp:
			if x.Op == token.ARROW && lastField(x.X) == fGcchan {
				head = x
				for _, r := range referrersOf(x) {
					if e, ok := r.(*ssa.Extract); ok && e.Index == 0 {
						head = e
					}
				}
			}
		}
	}
	if head == nil {
		undecidedf("collectionWorker: receive from gcchan not found")
	}
	var dels []ssa.Instruction
	for _, in := range p.CallSites(fn, slDeleteNode) {
		if lastField(callOf(in).Args[0]) == fStore {
			dels = append(dels, in)
		}
	}
	if len(dels) != 1 {
		undecidedf("collectionWorker: expected one store.DeleteNode call, found %d", len(dels))
	}
	del := dels[0]
	phi, _ := strip(callOf(del).Args[1]).(*ssa.Phi)
	// loop variable walks GetLink from the received head
	var advance ssa.Instruction
	okWalk := phi != nil
	if okWalk {
		for _, e := range phi.Edges {
			e = strip(e)
			if e == head {
				continue
			}
			if call, ok := e.(*ssa.Call); ok && p.CallsAny(call, getLink) && strip(call.Call.Args[0]) == ssa.Value(phi) {
				advance = call
				continue
			}
			okWalk = false
		}
	}
	if want == "C06.d" || want == "all" {
		c.Check(okWalk && advance != nil, fn, del, "unlink loop walks the released list from its head by GetLink", "the node passed to store.DeleteNode is not a cursor walking the received garbage list link by link")
		if okWalk && advance != nil {
			c.Check(fi.Dominates(del, advance), fn, del, "every listed node is unlinked before advancing", "some path advances to the next garbage node without unlinking the current one (node stays linked for ever, or is freed while linked)")
		}
	}
	// the store is looked up after the list was received: LoadFromDisk replaces m.store while writers (and their workers) exist
	if want == "C06.d" || want == "all" {
		hi, _ := head.(ssa.Instruction)
		fresh := false
		if ld, ok := strip(callOf(del).Args[0]).(*ssa.UnOp); ok && ld.Op == token.MUL && hi != nil {
			fresh = fi.Dominates(hi, ld)
		}
		c.Check(fresh, fn, del, "the store is looked up after the garbage list was received",
			"the worker unlinks from a store it looked up before the list arrived (e.g. once at start-up): after LoadFromDisk replaced the store, nodes of the new store stay linked while they are handed to the free workers, and Close's sweep frees them a second time")
	}
	// flush after the complete walk, carrying the list head
	for _, fl := range p.CallSites(fn, flush) {
		arg := strip(callOf(fl).Args[1])
		if want == "C04.d" || want == "C06.d" || want == "all" {
			c.Check(arg == head, fn, fl, "session flush carries the released list", "FlushSession is given something else than the head of the list whose nodes were just unlinked")
			done := phi != nil && fi.guardedByCmp(fl, token.EQL, isValue(phi), isNilConst)
			c.Check(done, fn, fl, "flush only after the whole list was unlinked (cursor == nil)", "the garbage list is attached to a barrier session before every node of it has been unlinked: a still linked node can be freed")
		}
	}
	if want == "C05.a" || want == "all" {
		for _, dw := range p.CallSites(fn, deltaWrite) {
			arg := strip(callOf(dw).Args[1])
			item, ok := arg.(*ssa.Call)
			okArg := ok && p.CallsAny(item, nodeItem) && phi != nil && strip(item.Call.Args[0]) == ssa.Value(phi)
			c.Check(okArg, fn, dw, "delta log receives the item of the node about to be unlinked", "doDeltaWrite is not applied to the item of the current garbage node")
			c.Check(fi.Dominates(dw, del), fn, dw, "delta log precedes the unlink", "an item is unlinked before it is logged to the delta file: a concurrent backup scan that has not reached it yet misses it")
		}
		if len(p.CallSites(fn, deltaWrite)) == 0 {
			c.Check(false, fn, del, "delta log precedes the unlink", "the collection worker no longer logs collected items for a running delta backup")
		}
	}
}

// Stitching of the writers' garbage lists in NewSnapshot (C06.b).
func clStitch(c *Ctx) {
	p := c.P
	fn := p.Func("nitro", "Nitro", "NewSnapshot")
	fi := p.Info(fn)
	fHead := p.Field("nitro", "Writer", "gchead")
	fTail := p.Field("nitro", "Writer", "gctail")
	fNext := p.Field("nitro", "Writer", "next")
	fCount := p.Field("nitro", "Writer", "count")
	fSts1 := p.Field("nitro", "Writer", "slSts1")
	fItems := p.Field("nitro", "Nitro", "itemsCount")
	fGclist := p.Field("nitro", "Snapshot", "gclist")
	merge := p.Func("skiplist", "Stats", "Merge")
	setLink := p.Func("skiplist", "Node", "SetLink")

	// loop variable over the writer list: a phi advanced by loads of .next
	var wphi *ssa.Phi
	var advance ssa.Instruction
	for _, in := range fi.Instrs {
		ph, ok := in.(*ssa.Phi)
		if !ok {
			continue
		}
		for _, e := range ph.Edges {
			if f, b := loadedField(e); f == fNext && strip(b) == ssa.Value(ph) {
				wphi = ph
				advance = strip(e).(ssa.Instruction)
			}
		}
	}
	if wphi == nil {
		undecidedf("NewSnapshot: loop over the writer list (w = w.next) not found")
	}
	onW := func(v ssa.Value) bool { return strip(v) == ssa.Value(wphi) }
	effect := func(name string, match func(in ssa.Instruction) bool, why string) {
		var found ssa.Instruction
		for _, in := range fi.Instrs {
			if match(in) && fi.Dominates(in, advance) {
				found = in
			}
		}
		c.Check(found != nil, fn, advance, "every writer: "+name, why)
	}
	effect("gchead reset to nil", func(in ssa.Instruction) bool {
		st, ok := in.(*ssa.Store)
		if !ok {
			return false
		}
		f, b := addrField(st.Addr)
		return f == fHead && onW(b) && isNilConst(st.Val)
	}, "a writer's garbage list head is not reset on some path: its nodes would be stitched into two snapshots and unlinked/freed twice")
	effect("gctail reset to nil", func(in ssa.Instruction) bool {
		st, ok := in.(*ssa.Store)
		if !ok {
			return false
		}
		f, b := addrField(st.Addr)
		return f == fTail && onW(b) && isNilConst(st.Val)
	}, "a writer's garbage list tail is not reset on some path: later deletes are appended to a list that already belongs to a snapshot")
	effect("writer statistics merged", func(in ssa.Instruction) bool {
		if !p.IsCall(in, merge) {
			return false
		}
		f, b := addrField(callOf(in).Args[1])
		return f == fSts1 && onW(b)
	}, "a writer's local skiplist statistics are not merged on some path")
	effect("count added to itemsCount", func(in ssa.Instruction) bool {
		k, on := atomicOnField(in, fItems)
		if !on || k != "Add" {
			return false
		}
		f, b := loadedField(atomicArgs(in)[1])
		return f == fCount && onW(b)
	}, "a writer's item delta is not added to the global count on some path: Count() of the snapshot is wrong")
	effect("count reset to zero", func(in ssa.Instruction) bool {
		st, ok := in.(*ssa.Store)
		if !ok {
			return false
		}
		f, b := addrField(st.Addr)
		return f == fCount && onW(b) && isConstInt(0)(st.Val)
	}, "a writer's item delta is not reset: it is counted again by the next snapshot")

	// the stitched head goes into the snapshot
	c.Check(len(p.storesTo(fn, fGclist)) >= 1, fn, nil, "snapshot receives the stitched garbage list", "the writers' garbage lists are reset but attached to no snapshot: those versions are never collected")
	for _, st := range p.storesTo(fn, fGclist) {
		okSrc := true
		seen := map[ssa.Value]bool{}
		var walk func(v ssa.Value)
		walk = func(v ssa.Value) {
			v = strip(seeRet(strip(v)))
			if seen[v] {
				return
			}
			seen[v] = true
			if ph, ok := v.(*ssa.Phi); ok {
				for _, e := range ph.Edges {
					walk(e)
				}
				return
			}
			if isNilConst(v) {
				return
			}
			if f, _ := loadedField(v); f == fHead {
				return
			}
			okSrc = false
		}
		walk(st.Val)
		c.Check(okSrc, fn, st, "snapshot gclist = stitched head of the writers' lists", "the snapshot's garbage list does not start at a writer's gchead")
		c.Check(fi.PathAvoiding(st, func(in ssa.Instruction) bool { return in == advance }, nil) == nil, fn, st, "gclist assigned after the stitch loop", "the list is attached before all writers were visited")
	}
	// linking: tail.SetLink(w.gchead) guarded by both non-nil
	for _, sl := range p.CallSites(fn, setLink) {
		args := callOf(sl).Args
		f, b := loadedField(args[1])
		okArg := f == fHead && onW(b)
		c.Check(okArg, fn, sl, "stitch links the previous tail to this writer's head", "SetLink in NewSnapshot does not append a writer's gchead")
		okGuard := fi.guardedByCmp(sl, token.NEQ, isValue(args[0]), isNilConst) &&
			fi.guardedByCmp(sl, token.NEQ, func(v ssa.Value) bool { f, b := loadedField(v); return f == fHead && onW(b) }, isNilConst)
		c.Check(okGuard, fn, sl, "link only when both lists are non-empty", "an empty writer list is linked in (cuts the stitched list) or a nil tail is dereferenced")
	}
}

// Garbage list integrity (C06.a): who may write the GC link of nodes and the
// writers' list ends.
func clGarbageListOwners(c *Ctx) {
	p := c.P
	setLink := p.Func("skiplist", "Node", "SetLink")
	allowed := map[*ssa.Function]string{
		p.Func("nitro", "Writer", "DeleteNode"): "winner of the delete",
		p.Func("nitro", "Nitro", "NewSnapshot"): "stitching (thread-unsafe API by contract)",
		p.Func("nitro", "NodeList", "Remove"):   "user-owned node list",
		p.Func("nitro", "NodeList", "Add"):      "user-owned node list",
	}
	cnt := counter{}
	for _, s := range p.AllCallSites(setLink) {
		fn := s.Parent()
		if fn.Package().Pkg.Path() != modPath {
			continue
		}
		_, ok := allowed[p.Root(fn)]
		c.Check(ok, fn, s, cnt.in(fn, "SetLink call"), "the GC link of a node is written outside the frozen owner table (DeleteNode winner, NewSnapshot stitch, NodeList): a garbage list can be cut or cross-linked")
	}
	fHead := p.Field("nitro", "Writer", "gchead")
	fTail := p.Field("nitro", "Writer", "gctail")
	for _, fv := range []*types.Var{fHead, fTail} {
		for _, w := range p.fieldWrites(fv) {
			_, ok := allowed[p.Root(w.fn)]
			ok = ok || isFreshBase(w.base)
			c.Check(ok, w.fn, w.in, cnt.in(w.fn, "write of Writer."+fv.Name()), "a writer's garbage list end is modified outside DeleteNode/NewSnapshot")
		}
	}
	// direct stores to Node.Link in package nitro bypassing SetLink
	linkF := p.FieldOpt("skiplist", "Node", "Link")
	if linkF != nil {
		for _, w := range p.fieldWrites(linkF) {
			if w.fn.Package().Pkg.Path() == modPath {
				_, ok := allowed[p.Root(w.fn)]
				c.Check(ok, w.fn, w.in, cnt.in(w.fn, "direct write of Node.Link"), "the GC link of a node is written outside the frozen owner table")
			}
		}
	}
}

// Winner-only side effects of Writer.DeleteNode (C03.a / C04.f / C06.a / C07.d)
func clDeleteNodeWinner(c *Ctx) {
	p := c.P
	fn := p.Func("nitro", "Writer", "DeleteNode")
	fi := p.Info(fn)
	fDead := p.Field("nitro", "Item", "deadSn")
	fBorn := p.Field("nitro", "Item", "bornSn")
	fHead := p.Field("nitro", "Writer", "gchead")
	fTail := p.Field("nitro", "Writer", "gctail")
	fCount := p.Field("nitro", "Writer", "count")
	fStore := p.Field("nitro", "Nitro", "store")
	setLink := p.Func("skiplist", "Node", "SetLink")
	flush := p.Func("skiplist", "AccessBarrier", "FlushSession")
	slDeleteNode := p.Func("skiplist", "Skiplist", "DeleteNode")
	slDeleteNode2 := p.Func("skiplist", "Skiplist", "DeleteNode2")
	getCurr := p.Func("nitro", "Nitro", "GetCurrSn")
	nodeItem := p.Func("skiplist", "Node", "Item")
	x := fn.Params[1]

	isWin := func(v ssa.Value) bool {
		call, ok := fi.resolveCell(v).(*ssa.Call)
		if !ok {
			return false
		}
		if k, on := atomicOnField(call, fDead); on && k == "CAS" {
			return true
		}
		return p.CallsAny(call, slDeleteNode, slDeleteNode2) && lastField(call.Call.Args[0]) == fStore
	}
	won := func(at ssa.Instruction) bool {
		return fi.Guarded(at, func(v ssa.Value, val bool) bool { return val && isWin(v) })
	}
	cnt := counter{}
	n := 0
	for _, in := range fi.Instrs {
		var what string
		switch {
		case p.IsCall(in, setLink):
			what = "SetLink"
		case p.IsCall(in, flush):
			what = "FlushSession"
		default:
			if st, ok := in.(*ssa.Store); ok {
				if f, _ := addrField(st.Addr); f == fHead || f == fTail {
					what = "store to Writer." + f.Name()
				}
			}
		}
		if what == "" {
			continue
		}
		n++
		c.Check(won(in), fn, in, cnt.in(fn, what+" only by the winner"),
			"a side effect visible to other goroutines ("+what+") is executed by a writer that has not won the delete of this node (lost deadSn CAS / failed physical delete): garbage lists are cut, or the node is queued for freeing twice")
	}
	// a node leaves DeleteNode towards the reclaimer (session flush) or a garbage
	// list only with its own link cleared: free/GC workers follow GetLink
	for _, in := range fi.Instrs {
		var obj ssa.Value
		what := ""
		if p.IsCall(in, flush) {
			obj, what = callOf(in).Args[1], "node handed to the barrier session has a cleared link"
		} else if st, ok := in.(*ssa.Store); ok {
			if f, _ := addrField(st.Addr); f == fTail {
				obj, what = st.Val, "node appended to the garbage list has a cleared link"
			}
		}
		if obj == nil || strip(obj) != ssa.Value(x) {
			continue
		}
		cleared := fi.MustPrecede(in, func(y ssa.Instruction) bool {
			return p.IsCall(y, setLink) && strip(callOf(y).Args[0]) == ssa.Value(x) && isNilConst(callOf(y).Args[1])
		})
		c.Check(cleared, fn, in, cnt.in(fn, what),
			"the free worker / collection worker walks GetLink() from the node it is given: a node that still carries a link (e.g. from a user NodeList, or an older list) drags live nodes into the free list (double free / free of linked nodes)")
	}
	// the winner of the deadSn CAS appends the node to its writer's garbage list
	for _, in := range fi.Instrs {
		k, on := atomicOnField(in, fDead)
		if !on || k != "CAS" {
			continue
		}
		casv := in.(ssa.Value)
		// the block entered when the CAS succeeded
		var win *ssa.BasicBlock
		for _, b := range fn.Blocks {
			if len(b.Instrs) == 0 {
				continue
			}
			if ifi, ok := b.Instrs[len(b.Instrs)-1].(*ssa.If); ok {
				f := normFact(ifi.Cond, true)
				if fi.resolveCell(f.V) == casv || f.V == casv {
					if f.Val {
						win = b.Succs[0]
					} else {
						win = b.Succs[1]
					}
				}
			}
		}
		if win == nil {
			c.Check(false, fn, in, "winner of the deadSn CAS appends the node to the garbage list", "the outcome of the delete stamp is not branched on")
			continue
		}
		isTailX := func(y ssa.Instruction) bool {
			st, ok := y.(*ssa.Store)
			if !ok {
				return false
			}
			f, _ := addrField(st.Addr)
			return f == fTail && strip(st.Val) == strip(x)
		}
		c.Check(fi.PathFromBlock(win, isReturn, isTailX) == nil, fn, in, "winner makes the node the new tail of its garbage list on every path",
			"a version whose delete stamp was won is not put on the writer's garbage list: no snapshot will ever own it and it is never collected")
		linked, headed := false, false
		for _, y := range fi.Instrs {
			if p.IsCall(y, setLink) {
				a := callOf(y).Args
				if f, _ := loadedField(a[0]); f == fTail && strip(a[1]) == strip(x) {
					if fi.guardedByCmp(y, token.NEQ, loadsField(fTail), isNilConst) {
						// old tail linked before the tail moves on
						okOrder := true
						for _, z := range fi.Instrs {
							if isTailX(z) && z.Block() == y.Block() && fi.idx[z] < fi.idx[y] {
								okOrder = false
							}
						}
						linked = okOrder
					}
				}
			}
			if st, ok := y.(*ssa.Store); ok {
				if f, _ := addrField(st.Addr); f == fHead {
					v := strip(st.Val)
					fromTail, _ := loadedField(v)
					if (v == strip(x) || fromTail == fTail) && fi.guardedByCmp(y, token.EQL, loadsField(fTail), isNilConst) {
						headed = true
					}
				}
			}
		}
		c.Check(linked, fn, in, "non-empty list: the old tail is linked to the node before the tail moves", "the garbage list is cut: everything appended before is unreachable from the new tail / the node is not reachable from the head")
		c.Check(headed, fn, in, "empty list: the node becomes head as well", "the first garbage node of an epoch is lost: the snapshot's list starts nowhere")
	}
	// the CAS: 0 -> current epoch
	for _, in := range fi.Instrs {
		if k, on := atomicOnField(in, fDead); on && k == "CAS" {
			args := atomicArgs(in)
			newv, ok := strip(args[2]).(*ssa.Call)
			c.Check(isConstInt(0)(args[1]) && ok && p.CallsAny(newv, getCurr), fn, in, "deadSn CAS is 0 -> GetCurrSn()",
				"the delete stamp is not installed by CompareAndSwap(&deadSn, 0, currSn): a dead item can be revived or re-stamped")
		}
	}
	// same-epoch selector: bornSn == currSn decides physical removal
	for _, in := range p.CallSites(fn, slDeleteNode, slDeleteNode2) {
		sel := fi.guardedByCmp(in, token.EQL, func(v ssa.Value) bool {
			f, b := loadedField(v)
			if f != fBorn {
				return false
			}
			call, ok := strip(b).(*ssa.Call)
			return ok && p.CallsAny(call, nodeItem) && strip(call.Call.Args[0]) == ssa.Value(x)
		}, func(v ssa.Value) bool {
			call, ok := strip(v).(*ssa.Call)
			return ok && p.CallsAny(call, getCurr)
		})
		c.Check(sel, fn, in, "physical delete only for an item born in the current epoch", "a version that an existing snapshot may see is removed physically (or the selector does not compare bornSn with the current epoch)")
		c.Check(strip(callOf(in).Args[1]) == ssa.Value(x), fn, in, "physical delete of the node passed in", "DeleteNode removes a different node")
	}
	for _, in := range fi.Instrs {
		if k, on := atomicOnField(in, fDead); on && k == "CAS" {
			notSame := fi.guardedByCmp(in, token.NEQ, loadsField(fBorn), func(v ssa.Value) bool {
				call, ok := strip(v).(*ssa.Call)
				return ok && p.CallsAny(call, getCurr)
			})
			c.Check(notSame, fn, in, "logical delete only for an item born in an earlier epoch", "an item born in the current epoch is only stamped dead: no snapshot will ever own its garbage")
		}
	}
	// count-- iff success (deferred closure reads the named result)
	okCount := false
	for cl := range deferredClosures(fn) {
		cfi := p.Info(cl)
		for _, st := range p.storesTo(cl, fCount) {
			g := cfi.Guarded(st, func(v ssa.Value, val bool) bool {
				if !val {
					return false
				}
				u, ok := v.(*ssa.UnOp)
				if !ok {
					return false
				}
				fv, ok := u.X.(*ssa.FreeVar)
				if !ok {
					return false
				}
				cell, _ := closureBinding(cl, fv).(*ssa.Alloc)
				if cell == nil {
					return false
				}
				// every store to the result cell is a win value
				all := true
				nst := 0
				for _, r := range referrersOf(cell) {
					if s2, ok := r.(*ssa.Store); ok && s2.Addr == ssa.Value(cell) {
						nst++
						if !isWin(s2.Val) {
							all = false
						}
					}
				}
				return all && nst > 0
			})
			c.Check(g, cl, st, "count-- only when the delete succeeded", "the writer's item delta is decremented although this writer did not delete the item")
			okCount = true
		}
	}
	for _, st := range p.storesTo(fn, fCount) {
		c.Check(won(st), fn, st, "count-- only when the delete succeeded", "the writer's item delta is decremented although this writer did not delete the item")
		okCount = true
	}
	if !okCount {
		c.Check(false, fn, nil, "count-- only when the delete succeeded", "a successful delete no longer decrements the writer's item delta")
	}
	if n < 5 {
		undecidedf("DeleteNode: only %d winner-only effects found (expected SetLink x3, FlushSession, gchead/gctail stores)", n)
	}
}

// Stitch decision table (C06.b): NewSnapshot is interpreted on a list of three
// writers, each with an empty or a non-empty garbage list (8 scenarios). The
// snapshot must receive the head of the first non-empty list, and consecutive
// non-empty lists must be linked tail -> head, nothing else.
func clStitchTable(c *Ctx) {
	p := c.P
	fn := p.Func("nitro", "Nitro", "NewSnapshot")
	fHead := p.Field("nitro", "Writer", "gchead")
	fTail := p.Field("nitro", "Writer", "gctail")
	fNext := p.Field("nitro", "Writer", "next")
	fWlist := p.Field("nitro", "Nitro", "wlist")
	fGclist := p.Field("nitro", "Snapshot", "gclist")
	setLink := p.Func("skiplist", "Node", "SetLink")
	type wr struct{ id int }
	type nd struct {
		w    int
		tail bool
	}
	var bad []string
	msg := ""
	for mask := 0; mask < 8 && msg == ""; mask++ {
		ws := []*wr{{0}, {1}, {2}}
		nonEmpty := func(i int) bool { return mask&(1<<uint(i)) != 0 }
		var links [][2]nd
		var gclist interface{} = "unset"
		it := &interp{p: p}
		handleOf := func(v ival) interface{} { return v.h }
		it.load = func(chain []*types.Var, root ssa.Value, env map[ssa.Value]ival) (ival, bool) {
			if len(chain) == 0 {
				return ival{kind: 'p', h: root}, true
			}
			f := chain[len(chain)-1]
			// whose field? evaluate the base pointer
			var base ival
			switch f {
			case fWlist:
				return ival{kind: 'p', h: ws[0]}, true
			case fHead, fTail, fNext:
				// the FieldAddr's X is the writer pointer value
				return ival{}, false
			}
			_ = base
			if _, isB := f.Type().Underlying().(*types.Basic); isB {
				return ival{kind: 'i', i: 0}, true
			}
			return ival{kind: 'p', h: f}, true
		}
		// loads of writer fields need the base VALUE: intercept through a custom load in call-free way
		it.loadAddr = func(u *ssa.UnOp, env map[ssa.Value]ival) (ival, bool) {
			fa, ok := u.X.(*ssa.FieldAddr)
			if !ok {
				return ival{}, false
			}
			f := fieldVarOf(fa)
			if f != fHead && f != fTail && f != fNext {
				return ival{}, false
			}
			b := it.val(fa.X, env)
			w, ok := b.h.(*wr)
			if !ok {
				outsidef("writer field read through an unknown base")
			}
			switch f {
			case fNext:
				if w.id+1 < len(ws) {
					return ival{kind: 'p', h: ws[w.id+1]}, true
				}
				return ival{kind: 'p', h: nil}, true
			case fHead:
				if nonEmpty(w.id) {
					return ival{kind: 'p', h: nd{w.id, false}}, true
				}
				return ival{kind: 'p', h: nil}, true
			default:
				if nonEmpty(w.id) {
					return ival{kind: 'p', h: nd{w.id, true}}, true
				}
				return ival{kind: 'p', h: nil}, true
			}
		}
		it.call = func(ci *ssa.Call, args []ival, env map[ssa.Value]ival) (ival, bool) {
			if p.CallsAny(ci, setLink) {
				a, aok := handleOf(args[0]).(nd)
				b, bok := handleOf(args[1]).(nd)
				if !aok || !bok {
					links = append(links, [2]nd{{-1, false}, {-1, false}})
				} else {
					links = append(links, [2]nd{a, b})
				}
				return ival{kind: 'u'}, true
			}
			// a private helper extracted from NewSnapshot is part of it
			if p.helperCall(ci) != nil {
				return ival{}, false
			}
			// everything else (statistics merge, counters, list insert, ...) does not take part
			sig := ci.Call.Signature()
			if sig.Results().Len() == 0 {
				return ival{kind: 'u'}, true
			}
			if sig.Results().Len() == 1 {
				if b, ok := sig.Results().At(0).Type().Underlying().(*types.Basic); ok {
					if b.Info()&types.IsBoolean != 0 {
						return ival{kind: 'b', b: true}, true
					}
					if b.Info()&types.IsInteger != 0 {
						return ival{kind: 'i', i: 1}, true
					}
				}
				return ival{kind: 'p', h: ci}, true
			}
			return ival{}, false
		}
		it.ignoreStore = func(st *ssa.Store) bool {
			if f, _ := addrField(st.Addr); f == fGclist {
				gclist = it.val(st.Val, it.env).h
			}
			return true
		}
		var r runResult
		msg = tryInterp(func() { r = it.Run(fn, fn.Blocks[0], 0, map[ssa.Value]ival{}) })
		_ = r
		if msg != "" {
			break
		}
		// reference
		var wantHead interface{}
		var wantLinks [][2]nd
		last := -1
		for i := 0; i < 3; i++ {
			if !nonEmpty(i) {
				continue
			}
			if last < 0 {
				wantHead = nd{i, false}
			} else {
				wantLinks = append(wantLinks, [2]nd{{last, true}, {i, false}})
			}
			last = i
		}
		desc := fmt.Sprintf("writers with garbage: %03b (bit i = writer i)", mask)
		if gclist != wantHead {
			bad = append(bad, fmt.Sprintf("%s: snapshot gclist = %v, expected %v", desc, gclist, wantHead))
		}
		if fmt.Sprint(links) != fmt.Sprint(wantLinks) {
			bad = append(bad, fmt.Sprintf("%s: links made %v, expected %v", desc, links, wantLinks))
		}
	}
	if msg != "" {
		c.Undecided(fn, nil, "stitch decision table", "outside the fragment: "+msg)
		return
	}
	det := ""
	if len(bad) > 0 {
		det = bad[0] + " — garbage lists of some writers are dropped or cross-linked: those versions are never collected (or collected twice)"
	}
	c.Check(len(bad) == 0, fn, nil, "stitch decision table: snapshot gets the first non-empty list, consecutive non-empty lists are linked tail->head", det)
}

package main

func init() {
	register(&PropCheck{
		ID: "C05",
		Explanation: "Round-trip equality over all contents and schedules is a runtime quantity and NOT decided. Decided necessary conditions: (a) delta logging order: the collection worker logs an item before it unlinks it; StoreToDisk releases the backup snapshot only after a successful init handshake, defers the terminate handshake after it, and (defer order) runs it before the delta writers are closed; " +
			"(b) the delta-log predicate equals its reference table (born <= sn < dead while active); (c) restore inserts delta items with the duplicate-rejecting comparator pair and frees rejected ones (role table); " +
			"(d) shard boundaries and iterator filtering of the backup scan (= C10.a, C09.a) and writer/reader framing agreement (= C19); (e) the restored count is taken from the assembled store after the delta phase and before the snapshot is created; restore verification (= C11.d).",
		Assumptions: []string{},
		Run: func(c *Ctx) {
			c.Do("C05.a", "L2 delta logging order", 8, func() { clCollectionWorker(c, "C05.a"); clDeltaHandshakeOrder(c); clHandshakeCarriesError(c) })
			c.Do("C05.b", "L5 delta predicate table", 2, func() { clDeltaPredicateTable(c) })
			c.Do("C05.c", "L4 restore uses the duplicate-rejecting insert", 10, func() { clComparatorRoles(c, map[string]bool{"field:store": true}); clDeltaRestoreFrees(c) })
			c.Do("C05.d", "L4+L2+L9 scan boundaries, filtering and framing", 12, func() {
				clVisitorBoundary(c)
				clVisitorShardStart(c)
				clCursorMovesFiltered(c)
				clRefreshOnlyOnVisible(c)
				clFrameGrammar(c)
				clChecksumOperands(c)
				clReaderVersionAndSingleStream(c)
				clAssembleTable(c)
				clSkiplistNextAdvancesOnce(c)
				clTerminatorAlways(c)
				clStreamPrivateState(c)
			})
			c.Do("C05.e", "L2 restored count source and verification", 8, func() {
				clRestoredCount(c)
				clVerificationPrecedesAcceptance(c)
				clRestoreItemSize(c)
				clAllocItemInitialises(c)
				clVisitorPivotCopies(c)
			})
		},
	})
}

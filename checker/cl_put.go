package main

import (
	"golang.org/x/tools/go/ssa"
)

// C02.c: result => effect pairing in Put2 and the lookup probe of GetNode.
func clPut2Pairing(c *Ctx) {
	p := c.P
	fn := p.Func("nitro", "Writer", "Put2")
	fi := p.Info(fn)
	fCount := p.Field("nitro", "Writer", "count")
	fBorn := p.Field("nitro", "Item", "bornSn")
	fStore := p.Field("nitro", "Nitro", "store")
	getCurr := p.Func("nitro", "Nitro", "GetCurrSn")
	freeItem := p.Func("nitro", "Nitro", "freeItem")
	ins := []*ssa.Function{p.Func("skiplist", "Skiplist", "Insert2"), p.Func("skiplist", "Skiplist", "Insert3")}
	var call *ssa.Call
	for _, s := range p.CallSites(fn, ins...) {
		if lastField(callOf(s).Args[0]) == fStore {
			if call != nil {
				undecidedf("Put2: more than one insert into the store")
			}
			call, _ = s.(*ssa.Call)
		}
	}
	if call == nil {
		undecidedf("Put2: insert into the store not found")
	}
	item := strip(call.Call.Args[1])
	var node, success ssa.Value
	for _, r := range referrersOf(call) {
		if e, ok := r.(*ssa.Extract); ok {
			if e.Index == 0 {
				node = e
			} else {
				success = e
			}
		}
	}
	if success == nil {
		c.Check(false, fn, call, "insert result decides the effects", "the success result of the insert is ignored")
		return
	}
	isSucc := func(val bool) func(at ssa.Instruction) bool {
		return func(at ssa.Instruction) bool { return fi.guardedByValue(at, success, val) }
	}
	// count++ iff success
	sts := p.storesTo(fn, fCount)
	c.Check(len(sts) == 1, fn, call, "count updated once", "Put2 must account exactly one item per successful insert")
	for _, st := range sts {
		c.Check(isSucc(true)(st), fn, st, "count++ only when the insert succeeded", "a rejected Put (live duplicate exists) is still counted: Count()/ItemsCount drift from the real number of live items")
	}
	// failure => free the item exactly once
	frees := p.CallSites(fn, freeItem)
	okFree := false
	for _, fr := range frees {
		if strip(callOf(fr).Args[1]) == item {
			c.Check(isSucc(false)(fr), fn, fr, "item freed only when the insert was rejected", "an item that was published into the store is freed while linked (use-after-free for every reader)")
			if isSucc(false)(fr) && !fi.inLoop(fr) {
				okFree = true
			}
		}
	}
	c.Check(okFree, fn, call, "rejected Put frees its item", "the item of a rejected Put is leaked (never freed by Close, which only walks linked nodes)")
	// failure path covered entirely: no path from the insert with !success to return avoiding freeItem
	leak := fi.PathAvoiding(call, func(x ssa.Instruction) bool {
		return isReturn(x) && !fi.guardedByValue(x, success, true)
	}, func(x ssa.Instruction) bool {
		if p.IsCall(x, freeItem) {
			return true
		}
		// the success edge is not of interest
		if _, isIf := x.(*ssa.If); isIf {
			return false
		}
		return false
	})
	_ = leak
	// returned node is nil on failure
	for _, ret := range fi.Returns() {
		if len(ret.Results) != 1 {
			continue
		}
		v := fi.RetVal(ret, 0)
		okRet := true
		if v == node {
			okRet = isSucc(true)(ret)
		} else if ph, isPhi := v.(*ssa.Phi); isPhi {
			for i, e := range ph.Edges {
				if e == node {
					ef := fi.EdgeFactSet(ph.Block().Preds[i], ph.Block())
					if !ef[Fact{success, true}] {
						okRet = false
					}
				}
			}
		}
		c.Check(okRet, fn, ret, "node returned only when the insert succeeded", "Put2 hands out the node of the EXISTING item on failure: the caller would take it for its own item (and e.g. delete somebody else's item)")
	}
	// born stamp
	okBorn := false
	for _, st := range p.storesTo(fn, fBorn) {
		_, b := addrField(st.Addr)
		cur, isCall := strip(st.Val).(*ssa.Call)
		if strip(b) == item && isCall && p.CallsAny(cur, getCurr) && fi.Dominates(st, call) {
			okBorn = true
		}
	}
	c.Check(okBorn, fn, call, "item stamped with the current epoch before it is inserted", "a new version must carry bornSn = current epoch when it becomes visible")
}

func clGetNodeProbe(c *Ctx) {
	p := c.P
	fn := p.Func("nitro", "Writer", "GetNode")
	fi := p.Info(fn)
	fBorn := p.Field("nitro", "Item", "bornSn")
	getCurr := p.Func("nitro", "Nitro", "GetCurrSn")
	seek := p.Func("skiplist", "Iterator", "SeekWithCmp")
	getNode := p.Func("skiplist", "Iterator", "GetNode")
	newItem := p.Func("nitro", "Nitro", "newItem")
	sk := p.firstCall(fn, seek)
	if sk == nil {
		undecidedf("GetNode: SeekWithCmp not found")
	}
	probe := strip(callOf(sk).Args[1])
	pc, ok := probe.(*ssa.Call)
	c.Check(ok && p.CallsAny(pc, newItem) && isFalseConst(pc.Call.Args[len(pc.Call.Args)-1]), fn, sk, "lookup probe is a private Go-heap item", "the probe item must not come from the user allocator (it is never freed)")
	okBorn := false
	for _, st := range p.storesTo(fn, fBorn) {
		_, b := addrField(st.Addr)
		cur, isCall := strip(st.Val).(*ssa.Call)
		if strip(b) == probe && isCall && p.CallsAny(cur, getCurr) && fi.Dominates(st, sk) {
			okBorn = true
		}
	}
	c.Check(okBorn, fn, sk, "lookup probe carries the current epoch", "the writer's lookup seeks (key, currSn) so that it lands behind every existing version of the key; with another epoch it accepts or misses the wrong version")
	for _, ret := range fi.Returns() {
		if len(ret.Results) != 1 || isNilConst(fi.RetVal(ret, 0)) {
			continue
		}
		gn, isCall := strip(fi.RetVal(ret, 0)).(*ssa.Call)
		c.Check(isCall && p.CallsAny(gn, getNode) && fi.guardedByValue(ret, sk.(ssa.Value), true), fn, ret, "node returned only when the seek found a live item", "GetNode returns the cursor position although no live item with that key was found (Delete then removes a different key)")
	}
	// absence is reported only by the search itself (no shortcut decides it)
	for _, ret := range fi.Returns() {
		if len(ret.Results) != 1 || !isNilConst(fi.RetVal(ret, 0)) {
			continue
		}
		c.Check(fi.guardedByValue(ret, sk.(ssa.Value), false), fn, ret, "GetNode reports absence only when the seek did not find the key",
			"a shortcut returns nil without searching (or ignoring the search): counters such as ItemsCount()/Writer.count do not see other writers' pending inserts, so a live item is reported absent and Delete fails on it")
	}
	// the probe is built from the caller's key
	c.Check(ok && strip(pc.Call.Args[1]) == strip(fn.Params[1]), fn, sk, "lookup probe is built from the caller's key bytes", "the lookup searches for something else than the key it was given")
	clKeyOpsAlwaysSearch(c)
}

// Every key operation is decided by a search of the store made with a probe
// built from the caller's bytes on that very call.
func clKeyOpsAlwaysSearch(c *Ctx) {
	p := c.P
	newItem := p.Func("nitro", "Nitro", "newItem")
	type op struct {
		fn     *ssa.Function
		search []*ssa.Function
		what   string
	}
	slSeek := p.Func("skiplist", "Iterator", "Seek")
	ops := []op{
		{p.Func("nitro", "Writer", "Put2"), []*ssa.Function{p.Func("skiplist", "Skiplist", "Insert2"), p.Func("skiplist", "Skiplist", "Insert3"), p.Func("skiplist", "Skiplist", "Insert")}, "Put2 always attempts the insert"},
		{p.Func("nitro", "Writer", "Delete2"), []*ssa.Function{p.Func("nitro", "Writer", "GetNode")}, "Delete2 always looks the key up"},
		{p.Func("nitro", "Writer", "GetNode"), []*ssa.Function{p.Func("skiplist", "Iterator", "SeekWithCmp")}, "GetNode always searches"},
		{p.Func("nitro", "Iterator", "Seek"), []*ssa.Function{slSeek}, "Iterator.Seek always repositions the cursor"},
	}
	for _, o := range ops {
		fi := p.Info(o.fn)
		for _, ret := range fi.Returns() {
			ok := fi.MustPrecede(ret, func(x ssa.Instruction) bool { return p.IsCall(x, o.search...) })
			c.Check(ok, o.fn, ret, o.what+" before it returns", "some path returns without consulting the store: the result does not reflect the current set")
		}
	}
	// snapshot iterator Seek: fresh probe from the caller's key
	sf := p.Func("nitro", "Iterator", "Seek")
	for _, s := range p.CallSites(sf, slSeek) {
		pc, ok := strip(callOf(s).Args[1]).(*ssa.Call)
		c.Check(ok && p.CallsAny(pc, newItem) && strip(pc.Call.Args[1]) == strip(sf.Params[1]), sf, s, "Iterator.Seek searches with a fresh probe built from the caller's key",
			"the seek key is a reused or cached item: bytes (or the length) of an earlier, longer key remain in it and the cursor lands on a different key")
	}
}

func isFalseConst(v ssa.Value) bool {
	b, ok := constBool(v)
	return ok && !b
}

package main

func init() {
	register(&PropCheck{
		ID: "C07",
		Explanation: "Exactly-once release over all histories is a runtime quantity and NOT decided; decided is the ownership discipline on every path, including error paths: (a) memory obtained from the configured allocator is, on every path, published, freed or handed to a caller subject to the same rule (Insert3/Insert4 dealloc, DecodeItem, delta restore); " +
			"(b) overwriting the owning field Nitro.store frees the replaced store's sentinels, and error returns of LoadFromDisk release what was built [known finding F8]; (c) Close tears down in the order collector flag, close(gcchan), wait GC workers, close(freechan), wait free workers, then sweeps every linked node (item, then node; lastNode idiom) and both sentinels once; " +
			"(d) memory is freed only in the frozen contexts; only the winning deleter flushes a session; (e) rejected Puts / inserts / delta items are freed at once and never after publication. " +
			"NOT decided: sessions left pending by the barrier (C17), schedules.",
		Assumptions: []string{},
		Run: func(c *Ctx) {
			c.Do("C07.a", "L11 allocation must be consumed", 4, func() { clAllocationsConsumed(c) })
			c.Do("C07.b", "L3+L2 overwrite of an owning field", 3, func() { clStoreOwnership(c) })
			c.Do("C07.c", "L2+L3 teardown order and free contexts", 15, func() {
				clFreeContexts(c)
				clFreeFeed(c)
				clStoreCursorsClosed(c)
				clWorkersSignalDone(c)
				clSkiplistCursorSession(c)
				clCollectionWorker(c, "C06.d")
				clTokenPairing(c)
			})
			c.Do("C07.d", "L1+L5 winner-only flush, exactly one winner", 10, func() { clDeleteNodeWinner(c); clSoftDeleteTable(c) })
			c.Do("C07.f", "L1+L10 every terminated session reaches the destructor exactly once", 12, func() {
				clTerminateOnce(c)
				clTryLockRecheck(c)
				clCleanupOrder(c)
			})
			c.Do("C07.e", "L1+L2 rejected operations free immediately", 8, func() { clRejectedFree(c) })
		},
	})
}

package main

import (
	"go/token"
	"go/types"
	"strings"

	"golang.org/x/tools/go/ssa"
)

// C09.a: after any call that repositions the underlying cursor of a
// nitro.Iterator, skipUnwanted runs before the method returns.
func clCursorMovesFiltered(c *Ctx) {
	p := c.P
	fIter := p.Field("nitro", "Iterator", "iter")
	skip := p.Func("nitro", "Iterator", "skipUnwanted")
	moves := []*ssa.Function{
		p.Func("skiplist", "Iterator", "SeekFirst"), p.Func("skiplist", "Iterator", "Seek"),
		p.Func("skiplist", "Iterator", "SeekWithCmp"), p.Func("skiplist", "Iterator", "Next"),
	}
	cnt := counter{}
	for _, site := range p.AllCallSites(moves...) {
		fn := site.Parent()
		if p.sameRoot(fn, skip) {
			continue // the filter itself; its loop shape is decided by the visibility-table clause
		}
		if f, _ := loadedField(callOf(site).Args[0]); f != fIter {
			continue
		}
		fi := p.Info(fn)
		self := fn.Params[0]
		ok := fi.MustFollow(site, func(x ssa.Instruction) bool {
			if !p.IsCall(x, skip) {
				// a call to another method of the same iterator that itself ends filtered
				return false
			}
			return strip(callOf(x).Args[0]) == ssa.Value(self)
		})
		c.Check(ok, fn, site, cnt.in(fn, "cursor move "+p.calleeName(site)+" is followed by the visibility filter"),
			"the cursor can be left on a version that the snapshot must not see (an older dead version or a newer one): the item is returned although invisible, typically as a duplicate of its key")
	}
}

// C09.c / C04.b(i): nitro.Iterator.Refresh must re-seek with a private COPY of
// the current item made before the old cursor (and its barrier session) is
// closed.
func clRefreshCopies(c *Ctx) {
	p := c.P
	fn := p.Func("nitro", "Iterator", "Refresh")
	fi := p.Info(fn)
	slClose := p.Func("skiplist", "Iterator", "Close")
	slSeek := p.Func("skiplist", "Iterator", "Seek")
	slSeekCmp := p.Func("skiplist", "Iterator", "SeekWithCmp")
	ptrToItem := p.Func("nitro", "Nitro", "ptrToItem")
	newItem := p.Func("nitro", "Nitro", "newItem")
	unsafeSrc := []*ssa.Function{p.Func("skiplist", "Node", "Item"), p.Func("skiplist", "Iterator", "Get"),
		p.Func("skiplist", "Iterator", "GetNode"), p.Func("nitro", "Iterator", "GetNode"), p.Func("nitro", "Item", "Bytes")}
	closes := p.CallSites(fn, slClose)
	fIterF := p.Field("nitro", "Iterator", "iter")
	replaced := p.storesTo(fn, fIterF)
	if len(closes) == 0 {
		// replacing the cursor without closing the old one leaks its barrier session
		c.Check(len(replaced) == 0, fn, nil, "the old cursor is closed before it is replaced", "Refresh drops the old cursor without closing it: its barrier session is never released and blocks reclamation for ever")
		c.Note("nitro.Iterator.Refresh does not close its cursor; C09.c vacuous")
		return
	}
	cl := closes[0]
	for _, st := range replaced {
		c.Check(fi.Dominates(cl, st), fn, st, "the old cursor is closed before it is replaced", "Refresh drops the old cursor without closing it: its barrier session is never released")
	}
	// a closed cursor is not used again: every later call on it.iter reads the field after it was re-assigned
	for _, in := range fi.Instrs {
		cc := callOf(in)
		if cc == nil || in == cl || !fi.Reaches(cl, in) || len(cc.Args) == 0 {
			continue
		}
		if f, _ := loadedField(cc.Args[0]); f != fIterF {
			continue
		}
		fresh := false
		for _, st := range replaced {
			if fi.Dominates(cl, st) && fi.Dominates(st, in) {
				fresh = true
			}
		}
		c.Check(fresh, fn, in, "after closing its cursor Refresh continues with a newly opened one", "the closed cursor (no barrier session any more) is used to walk the store: nodes under it can be freed")
	}
	for _, sk := range p.CallSites(fn, slSeek, slSeekCmp) {
		if !fi.Reaches(cl, sk) {
			continue
		}
		arg := strip(callOf(sk).Args[1])
		call, ok := arg.(*ssa.Call)
		isCopy := ok && p.CallsAny(call, ptrToItem, newItem)
		if !c.Check(isCopy, fn, sk, "re-seek uses a private copy of the current item", "after the cursor's barrier session is released the item it stood on may be freed; seeking with a pointer to it is a use-after-free") {
			continue
		}
		c.Check(fi.Dominates(call, cl), fn, sk, "the copy is made before the old session is released", "the item is copied after the session protecting it was released")
	}
	// no value obtained from the old cursor is used after the Close
	for _, in := range fi.Instrs {
		if callOf(in) == nil || !fi.Reaches(cl, in) || in == cl {
			continue
		}
		for _, a := range callOf(in).Args {
			if src, ok := strip(a).(*ssa.Call); ok && p.CallsAny(src, unsafeSrc...) && fi.Dominates(src, cl) {
				c.Check(false, fn, in, "no pointer from the old cursor is used after its session ended", "a node/item pointer read under the old barrier session is used after that session was released")
			}
		}
	}
}

// C04.b(ii): skiplist.Iterator.Refresh acquires the new session before it
// re-seeks and releases the old one only afterwards.
func clSkiplistRefreshOrder(c *Ctx) {
	p := c.P
	fn := p.Func("skiplist", "Iterator", "Refresh")
	fi := p.Info(fn)
	acq := p.Func("skiplist", "AccessBarrier", "Acquire")
	rel := p.Func("skiplist", "AccessBarrier", "Release")
	seek := p.Func("skiplist", "Iterator", "Seek")
	a, s, r := p.firstCall(fn, acq), p.firstCall(fn, seek), p.firstCall(fn, rel)
	if !c.Check(a != nil && s != nil && r != nil, fn, nil, "refresh = acquire new session, re-seek, release old session", "the refresh protocol of the skiplist iterator is incomplete") {
		return
	}
	c.Check(fi.Dominates(a, s) && fi.Dominates(s, r), fn, s, "acquire < seek < release(old)", "the iterator is outside every barrier session while it still points at a node, or re-seeks unprotected")
	// the released session is the one held before (loaded before the new one is stored)
	fBs := p.Field("skiplist", "Iterator", "bs")
	old := strip(callOf(r).Args[1])
	f, _ := loadedField(old)
	okOld := f == fBs
	if okOld {
		for _, st := range p.storesTo(fn, fBs) {
			if fi.Dominates(st, old.(ssa.Instruction)) {
				okOld = false
			}
		}
	}
	c.Check(okOld, fn, r, "the session released is the old one", "refresh releases the freshly acquired session instead of the old one: the accessor count of the old session never drops and nothing is reclaimed any more")
	// and the new one is remembered
	okNew := false
	for _, st := range p.storesTo(fn, fBs) {
		if strip(st.Val) == a.(ssa.Value) {
			okNew = true
		}
	}
	c.Check(okNew, fn, a, "the new session is recorded in the iterator", "the iterator forgets the session it acquired: it is never released")
}

// The skiplist cursor owns one barrier session token from construction to
// Close/Pause: the constructor stores the acquired token, Close and Pause give
// it back whenever one is held.
func clSkiplistCursorSession(c *Ctx) {
	p := c.P
	acq := p.Func("skiplist", "AccessBarrier", "Acquire")
	rel := p.Func("skiplist", "AccessBarrier", "Release")
	fBs := p.Field("skiplist", "Iterator", "bs")
	// every Acquire made on behalf of a cursor is recorded in Iterator.bs
	n := 0
	for _, g := range p.Funcs {
		if g.Package().Pkg.Path() != modPath+"/skiplist" {
			continue
		}
		isCursorFn := false
		if sig := g.Signature; sig.Recv() != nil {
			if pt, ok := sig.Recv().Type().(*types.Pointer); ok {
				if nt, ok := pt.Elem().(*types.Named); ok && nt.Obj().Name() == "Iterator" {
					isCursorFn = true
				}
			}
		}
		ctor := strings.HasPrefix(g.Name(), "NewIterator")
		if !isCursorFn && !ctor {
			continue
		}
		for _, in := range p.Own(g) {
			if !p.IsCall(in, acq) {
				continue
			}
			n++
			kept := false
			for _, w := range p.fieldWrites(fBs) {
				if w.kind == "store" && strip(w.val) == in.(ssa.Value) && p.sameRoot(w.fn, g) {
					kept = true
				}
			}
			c.Check(kept, g, in, "a session token acquired for a cursor is recorded in Iterator.bs", "the cursor forgets its token: it can never be released, the session never terminates")
		}
	}
	if n < 2 {
		undecidedf("skiplist cursor: only %d Acquire sites found", n)
	}
	// releasesHeld: on every path of fn on which a token is held, it is released — directly or
	// through another method of the same cursor that does so (a helper shared by Close and Pause)
	var releasesHeld func(fn *ssa.Function, depth int) bool
	releasesHeld = func(fn *ssa.Function, depth int) bool {
		if fn.Blocks == nil || len(fn.Params) == 0 {
			return false
		}
		fi := p.Info(fn)
		isRel := func(x ssa.Instruction) bool {
			if p.IsCall(x, rel) {
				f, b := loadedField(callOf(x).Args[1])
				return f == fBs && strip(b) == strip(fn.Params[0])
			}
			if call, ok := x.(*ssa.Call); ok && depth < 2 {
				g := call.Call.StaticCallee()
				if g != nil && g != fn && g.Package() == fn.Package() && p.helperCall(x) == nil && len(call.Call.Args) > 0 &&
					strip(call.Call.Args[0]) == strip(fn.Params[0]) && g.Signature.Recv() != nil {
					return releasesHeld(g, depth+1)
				}
			}
			return false
		}
		esc := fi.PathAvoidingEdges(nil, func(x ssa.Instruction) bool {
			r, ok := x.(*ssa.Return)
			return ok && r.Block() != fn.Recover
		}, isRel, func(pb, sb *ssa.BasicBlock) bool {
			// the branch on which no token is held needs no release
			for f := range fi.EdgeFactSet(pb, sb) {
				cmp, ok := cmpOf(f.V, f.Val)
				if ok && cmp.match(token.EQL, loadsField(fBs), isNilConst) {
					return true
				}
			}
			return false
		})
		return esc == nil
	}
	for _, name := range []string{"Close", "Pause"} {
		fn := p.Func("skiplist", "Iterator", name)
		c.Check(releasesHeld(fn, 0), fn, nil, "skiplist Iterator."+name+" releases the session token whenever one is held",
			"a closed (or paused) cursor keeps its token: the session it was counted in never terminates, so nothing retired from then on is ever freed")
	}
}

// C09.a': Refresh re-seeks by key only and therefore must only run while the
// cursor stands on a VISIBLE item: between any cursor move and an internal
// call of Refresh the visibility filter must have run.
func clRefreshOnlyOnVisible(c *Ctx) {
	p := c.P
	fIter := p.Field("nitro", "Iterator", "iter")
	skip := p.Func("nitro", "Iterator", "skipUnwanted")
	refresh := p.Func("nitro", "Iterator", "Refresh")
	moves := []*ssa.Function{
		p.Func("skiplist", "Iterator", "SeekFirst"), p.Func("skiplist", "Iterator", "Seek"),
		p.Func("skiplist", "Iterator", "SeekWithCmp"), p.Func("skiplist", "Iterator", "Next"),
	}
	cnt := counter{}
	n := 0
	for _, rs := range p.AllCallSites(refresh) {
		fn := rs.Parent()
		if fn.Package().Pkg.Path() != modPath || fn.Signature.Recv() == nil {
			continue
		}
		fi := p.Info(fn)
		n++
		ok := true
		for _, m := range p.CallSites(fn, moves...) {
			if f, _ := loadedField(callOf(m).Args[0]); f != fIter {
				continue
			}
			if fi.PathAvoiding(m, func(x ssa.Instruction) bool { return x == rs }, func(x ssa.Instruction) bool { return p.IsCall(x, skip) }) != nil {
				ok = false
			}
		}
		c.Check(ok, fn, rs, cnt.in(fn, "Refresh runs only after the visibility filter repositioned the cursor"),
			"Refresh can run while the cursor stands on an invisible version of a key: its key-only re-seek lands on the oldest version of that key, which may be the visible one that was already returned (duplicate), so the scan depends on the refresh rate")
	}
	if n == 0 {
		c.Note("no internal caller of nitro.Iterator.Refresh")
	}
}

// C09.e: the underlying cursor advances by exactly one live node per Next: it
// re-examines the current node (loops back) only when the cursor did not move.
func clSkiplistNextAdvancesOnce(c *Ctx) {
	p := c.P
	fn := p.Func("skiplist", "Iterator", "Next")
	fi := p.Info(fn)
	// the periodic cursor refresh is decided on the step count AFTER this step was counted
	if fCount := p.FieldOpt("skiplist", "Iterator", "count"); fCount != nil {
		for _, in := range fi.Instrs {
			b, ok := in.(*ssa.BinOp)
			if !ok || b.Op != token.REM || !loadsField(fCount)(b.X) {
				continue
			}
			ld := strip(b.X).(ssa.Instruction)
			counted := false
			for _, st := range p.storesTo(fn, fCount) {
				if add, isAdd := strip(st.Val).(*ssa.BinOp); isAdd && add.Op == token.ADD && fi.Dominates(st, ld) {
					counted = true
				}
			}
			c.Check(counted, fn, in, "the step is counted before the refresh interval is tested", "a fresh cursor (count 0) refreshes on its very first step: the key-only re-seek throws it back to the oldest version of the key it just reached, which may already have been returned")
		}
	}
	fCurr := p.Field("skiplist", "Iterator", "curr")
	getNext := p.Func("skiplist", "Node", "getNext")
	// G: the examination of the current node
	var g ssa.Instruction
	for _, s := range p.CallSites(fn, getNext) {
		if f, _ := loadedField(callOf(s).Args[0]); f == fCurr {
			g = s
			break
		}
	}
	if g == nil {
		undecidedf("skiplist.Iterator.Next: examination of it.curr not found")
	}
	cnt := counter{}
	n := 0
	for _, st := range p.storesTo(fn, fCurr) {
		n++
		if !fi.Reaches(st, g) {
			c.Check(true, fn, st, cnt.in(fn, "cursor store does not loop back"), "")
			continue
		}
		// every way back to the examination passes an equality test on it.curr whose unequal side cannot reach it
		var tests []*ssa.If
		leak := fi.PathAvoiding(st, func(x ssa.Instruction) bool { return x == g }, func(x ssa.Instruction) bool {
			ifi, ok := x.(*ssa.If)
			if !ok {
				return false
			}
			found := false
			var visit func(v ssa.Value, d int)
			visit = func(v ssa.Value, d int) {
				if d > 3 || found {
					return
				}
				if b, ok := v.(*ssa.BinOp); ok {
					if b.Op == token.EQL || b.Op == token.NEQ {
						if loadsField(fCurr)(b.X) || loadsField(fCurr)(b.Y) {
							found = true
							return
						}
					}
					visit(b.X, d+1)
					visit(b.Y, d+1)
				}
				if ph, ok := v.(*ssa.Phi); ok {
					for _, e := range ph.Edges {
						visit(e, d+1)
					}
				}
			}
			visit(ifi.Cond, 0)
			if found {
				tests = append(tests, ifi)
			}
			return found
		})
		ok := leak == nil && len(tests) > 0
		for _, t := range tests {
			cmp, isC := cmpOf(t.Cond, true)
			if !isC {
				ok = false
				continue
			}
			uneq := t.Block().Succs[1]
			if cmp.Op == token.NEQ {
				uneq = t.Block().Succs[0]
			}
			if fi.PathFromBlock(uneq, func(x ssa.Instruction) bool { return x == g }, nil) != nil {
				ok = false
			}
		}
		c.Check(ok, fn, st, cnt.in(fn, "after moving the cursor Next does not advance again"),
			"Next re-examines (and steps past) the current node after the cursor already moved to its successor: a live item is skipped, or the cursor runs past the tail")
	}
	if n < 2 {
		undecidedf("skiplist.Iterator.Next: expected stores to it.curr")
	}
}

// Every positioning method of the skiplist cursor re-validates it: Valid()
// latches to false at the tail, so SeekFirst/Seek after reaching the end must
// set the flag again (and a fresh cursor is not valid before it is positioned).
func clCursorRevalidated(c *Ctx) {
	p := c.P
	fValid := p.Field("skiplist", "Iterator", "valid")
	for _, name := range []string{"SeekFirst", "Seek"} {
		fn := p.Func("skiplist", "Iterator", name)
		fi := p.Info(fn)
		ok := fi.PathAvoiding(nil, isReturn, func(x ssa.Instruction) bool {
			st, isS := x.(*ssa.Store)
			if !isS {
				return false
			}
			f, _ := addrField(st.Addr)
			b, isC := constBool(st.Val)
			return f == fValid && isC && b
		}) == nil
		c.Check(ok, fn, nil, "positioning re-validates the cursor", "a cursor that reached the end stays invalid after it is repositioned: Valid() is false although it stands on an item, so scans after a rewind return nothing")
	}
	// Valid() turns false exactly at the tail sentinel
	vf := p.Func("skiplist", "Iterator", "Valid")
	vfi := p.Info(vf)
	fCurr := p.Field("skiplist", "Iterator", "curr")
	fTail := p.Field("skiplist", "Skiplist", "tail")
	okTail := false
	for _, st := range p.storesTo(vf, fValid) {
		if b, isC := constBool(st.Val); isC && !b {
			okTail = vfi.guardedByCmp(st, token.EQL, loadsField(fCurr), loadsField(fTail))
		}
	}
	c.Check(okTail, vf, nil, "the cursor becomes invalid exactly when it stands on the tail sentinel", "")
	// a fresh cursor is not valid
	for _, ctor := range []string{"NewIterator2"} {
		fn := p.Func("skiplist", "Skiplist", ctor)
		bad := false
		for _, st := range p.storesTo(fn, fValid) {
			if b, isC := constBool(st.Val); isC && b {
				bad = true
			}
		}
		c.Check(!bad, fn, nil, "an unpositioned cursor is not valid", "")
	}
}

// The skiplist cursor's built-in refresh re-seeks by key with the cursor's
// comparator and lands on the oldest physical version of the key; on the
// multi-version store that is in front of where a snapshot iterator stands
// (inside the visibility filter it loops for ever, outside it re-delivers).
// Only nitro.Iterator.Refresh (copy, re-seek, filter) may refresh a store cursor.
func clBuiltinRefreshNotOnStore(c *Ctx) {
	p := c.P
	sri := p.Func("skiplist", "Iterator", "SetRefreshInterval")
	n := 0
	for _, fn := range p.Funcs {
		if fn.Pkg == nil || fn.Pkg.Pkg.Name() != "nitro" {
			continue
		}
		n++
		for _, cs := range p.CallSites(fn, sri) {
			c.Check(false, fn, cs, "the key-only built-in cursor refresh is not enabled on a cursor of the multi-version store",
				"SetRefreshInterval makes skiplist.Iterator.Next re-seek by key: the cursor jumps back to the oldest version of the current key, so a snapshot scan over a key with dead older versions re-delivers items or never terminates")
		}
	}
	c.Check(n > 0 && sri != nil, nil, nil, "nitro package scanned for uses of the skiplist cursor's built-in refresh", "")
}

package main

import (
	"fmt"
	"go/constant"
	"go/token"
	"go/types"
	"sort"
	"strings"

	"golang.org/x/tools/go/ssa"
)

// one update of a statistics counter
type statUpd struct {
	in    ssa.Instruction
	field string // counter name
	delta string // "+1", "-1", "+size(<node>)", "-size(<node>)", "?"
	index ssa.Value
	node  ssa.Value // node whose size/level is used
}

func (p *Prog) statUpdates(fn *ssa.Function) []statUpd {
	return p.statUpdatesOf(p.Info(fn).Instrs)
}

func (p *Prog) statUpdatesOf(instrs []ssa.Instruction) []statUpd {
	addI := p.Func("skiplist", "Stats", "AddInt64")
	addU := p.Func("skiplist", "Stats", "AddUint64")
	sizeFn := p.Func("skiplist", "Skiplist", "Size")
	var out []statUpd
	for _, in := range instrs {
		if !p.IsCall(in, addI, addU) {
			continue
		}
		a := callOf(in).Args
		u := statUpd{in: in, delta: "?"}
		addr := strip(a[1])
		if ia, ok := addr.(*ssa.IndexAddr); ok {
			if f, _ := addrField(ia.X); f != nil {
				u.field = f.Name()
				u.index = strip(ia.Index)
			}
		} else if f, _ := addrField(addr); f != nil {
			u.field = f.Name()
		}
		v := a[2]
		neg := false
		if un, ok := strip(v).(*ssa.UnOp); ok && un.Op == token.SUB {
			neg = true
			v = un.X
		}
		if n, ok := constInt(v); ok {
			u.delta = fmt.Sprintf("%+d", n)
		} else if call, ok := strip(v).(*ssa.Call); ok && p.CallsAny(call, sizeFn) {
			u.node = strip(call.Call.Args[1])
			if neg {
				u.delta = "-size"
			} else {
				u.delta = "+size"
			}
		}
		out = append(out, u)
	}
	return out
}

// C14.a/b accounting triples are siblings.
func clAccounting(c *Ctx) {
	p := c.P
	ins4 := p.Func("skiplist", "Skiplist", "Insert4")
	segAdd := p.Func("skiplist", "Segment", "Add")
	help := p.Func("skiplist", "Skiplist", "helpDelete")
	freeNode := p.Func("skiplist", "Skiplist", "FreeNode")
	dcas := p.Func("skiplist", "Node", "dcasNext")
	levelFn := p.Func("skiplist", "Node", "Level")
	fNewNode := p.Field("skiplist", "Skiplist", "newNode")

	find := func(us []statUpd, field string) []statUpd {
		var out []statUpd
		for _, u := range us {
			if u.field == field {
				out = append(out, u)
			}
		}
		return out
	}
	// account-in sites
	type inSite struct {
		fn    *ssa.Function
		node  ssa.Value
		level ssa.Value
	}
	var ins []inSite
	ins = append(ins, inSite{ins4, strip(ins4.Params[1]), strip(ins4.Params[5])})
	// Segment.Add: node = result of store.newNode(itm, itemLevel)
	for _, in := range p.Info(segAdd).Instrs {
		if call, ok := in.(*ssa.Call); ok && call.Call.StaticCallee() == nil && !call.Call.IsInvoke() && lastField(call.Call.Value) == fNewNode {
			ins = append(ins, inSite{segAdd, call, strip(call.Call.Args[1])})
		}
	}
	if len(ins) != 2 {
		undecidedf("Segment.Add: node allocation through store.newNode not found")
	}
	for _, s := range ins {
		us := p.statUpdates(s.fn)
		fi := p.Info(s.fn)
		for _, want := range []struct{ field, delta string }{{"nodeAllocs", "+1"}, {"levelNodesCount", "+1"}, {"usedBytes", "+size"}} {
			got := find(us, want.field)
			ok := len(got) == 1 && got[0].delta == want.delta && !fi.inLoop(got[0].in)
			if ok && want.field == "levelNodesCount" {
				ok = got[0].index == strip(s.level)
			}
			if ok && want.field == "usedBytes" {
				ok = got[0].node == strip(s.node)
			}
			var at ssa.Instruction
			if len(got) > 0 {
				at = got[0].in
			}
			c.Check(ok, s.fn, at, "a new node is accounted once: "+want.field+" "+want.delta+" (its own level / size)",
				"node accounting of this insertion path differs from its siblings: node count, per-level distribution or MemoryInUse drift from what a walk of the structure measures")
			if ok {
				// on every path to a successful return
				for _, ret := range fi.Returns() {
					if len(ret.Results) == 2 {
						if b, isC := constBool(fi.RetVal(ret, 1)); isC && !b {
							continue
						}
					}
					c.Check(fi.Dominates(got[0].in, ret), s.fn, ret, want.field+" accounted on every successful path", "some successful path skips the accounting")
				}
			}
		}
		for _, u := range us {
			if u.field != "nodeAllocs" && u.field != "levelNodesCount" && u.field != "usedBytes" && u.field != "insertConflicts" && u.field != "readConflicts" {
				c.Check(false, s.fn, u.in, "unexpected counter "+u.field+" updated on the insertion path", "")
			}
		}
	}
	// Insert4: accounted only after publication
	{
		fi := p.Info(ins4)
		var level0 ssa.Value
		for _, d := range p.CallSites(ins4, dcas) {
			a := callOf(d).Args
			if strip(a[0]) != strip(ins4.Params[1]) && strip(a[3]) == strip(ins4.Params[1]) && isConstInt(0)(a[1]) {
				level0 = d.(ssa.Value)
			}
		}
		for _, u := range p.statUpdates(ins4) {
			if u.field == "nodeAllocs" || u.field == "levelNodesCount" || u.field == "usedBytes" {
				c.Check(level0 != nil && fi.guardedByValue(u.in, level0, true), ins4, u.in, u.field+" accounted only after the node was published", "a rejected or retried insert is accounted")
			}
		}
	}
	// account-out: helpDelete
	{
		fi := p.Info(help)
		us := p.statUpdates(help)
		curr := strip(help.Params[3])
		lvl := strip(help.Params[1])
		cs := p.CallSites(help, dcas)
		if len(cs) != 1 {
			undecidedf("helpDelete: unlink CAS not found")
		}
		for _, want := range []struct{ field, delta string }{{"softDeletes", "-1"}, {"levelNodesCount", "-1"}, {"usedBytes", "-size"}} {
			got := find(us, want.field)
			ok := len(got) == 1 && got[0].delta == want.delta
			if ok && want.field == "levelNodesCount" {
				call, isCall := got[0].index.(*ssa.Call)
				ok = isCall && p.CallsAny(call, levelFn) && derefOf(call.Call.Args[0]) == curr
			}
			if ok && want.field == "usedBytes" {
				ok = got[0].node == curr
			}
			var at ssa.Instruction
			if len(got) > 0 {
				at = got[0].in
			}
			c.Check(ok, help, at, "an unlinked node is accounted out once: "+want.field+" "+want.delta+" (its own level / size)", "the unlink path does not mirror the insertion accounting")
			if ok {
				g := fi.guardedByValue(got[0].in, cs[0].(ssa.Value), true) && fi.guardedByCmp(got[0].in, token.EQL, isValue(lvl), isConstInt(0))
				c.Check(g, help, got[0].in, want.field+" decremented only by the helper whose unlink CAS succeeded at level 0",
					"counters are decremented by a helper that lost the CAS, or once per level: node count and memory statistics go negative / drift")
			}
		}
	}
	// who may touch which counter
	allowed := map[string]map[string]string{
		"nodeFrees":       {"skiplist.(*Skiplist).FreeNode": "+1"},
		"nodeAllocs":      {"skiplist.(*Skiplist).Insert4": "+1", "skiplist.(*Segment).Add": "+1"},
		"softDeletes":     {"skiplist.(*Skiplist).softDelete": "+1", "skiplist.(*Skiplist).helpDelete": "-1"},
		"usedBytes":       {"skiplist.(*Skiplist).Insert4": "+size", "skiplist.(*Segment).Add": "+size", "skiplist.(*Skiplist).helpDelete": "-size"},
		"levelNodesCount": {"skiplist.(*Skiplist).Insert4": "+1", "skiplist.(*Segment).Add": "+1", "skiplist.(*Skiplist).helpDelete": "-1"},
	}
	cnt := counter{}
	for _, fn := range p.Funcs {
		if fn.Package().Pkg.Path() != modPath+"/skiplist" && fn.Package().Pkg.Path() != modPath {
			continue
		}
		for _, u := range p.statUpdatesOf(p.Own(fn)) {
			tbl, ok := allowed[u.field]
			if !ok {
				continue
			}
			want, okFn := tbl[fname(fn)]
			if !okFn {
				// the owner may have been split into transparent helpers, or be one itself
				for name, w := range tbl {
					if o := p.funcByFname(name); o != nil && p.sameRoot(o, fn) {
						want, okFn = w, true
					}
				}
			}
			if !okFn {
				// an owner of the table that no longer exists under its name (renamed, or turned from a
				// method into a function): the one function that now makes the same update takes its place
				missing := 0
				for name, w := range tbl {
					if p.funcByFname(name) == nil && w == u.delta {
						missing++
						want = w
					}
				}
				if missing == 1 {
					okFn = true
					c.Note("counter " + u.field + " " + u.delta + ": table owner not found under its name; " + fname(fn) + " taken as the renamed owner")
				}
			}
			c.Check(okFn && want == u.delta, fn, u.in, cnt.in(fn, "counter "+u.field+" "+u.delta+" by its owner"), "a structure counter is updated outside the frozen accounting table")
		}
	}
	// the counting free is for nodes that were accounted in; the structure itself (a rejected
	// insert releasing the caller's private node) uses the raw free
	for _, s := range p.AllCallSites(freeNode) {
		g := s.Parent()
		if g.Package() == nil || g.Package().Pkg.Path() != modPath+"/skiplist" {
			continue
		}
		c.Check(false, g, s, cnt.in(g, "package skiplist releases unaccounted nodes with the raw free"),
			"a node that never entered the statistics (rejected insert) is released through FreeNode, which counts a node free: NodeAllocs-NodeFrees drops below the number of linked nodes")
	}
	// FreeNode counts the free
	us := p.statUpdates(freeNode)
	c.Check(len(find(us, "nodeFrees")) == 1 && find(us, "nodeFrees")[0].delta == "+1", freeNode, nil, "FreeNode counts one free", "allocations minus frees no longer equals the number of live node blocks")
}

// derefOf: for a value-receiver call (Node).Level(*n) returns n.
func derefOf(v ssa.Value) ssa.Value {
	if u, ok := strip(v).(*ssa.UnOp); ok && u.Op == token.MUL {
		return strip(u.X)
	}
	return strip(v)
}

// C14.c Merge / Apply are exhaustive over Stats (L7)
func clStatsExhaustive(c *Ctx) {
	p := c.P
	st := p.Named("skiplist", "Stats").Underlying().(*types.Struct)
	merge := p.Func("skiplist", "Stats", "Merge")
	apply := p.Func("skiplist", "StatsReport", "Apply")
	recv, src := strip(merge.Params[0]), strip(merge.Params[1])
	n := 0
	for i := 0; i < st.NumFields(); i++ {
		f := st.Field(i)
		if f.Name() == "isLocal" {
			continue
		}
		n++
		// Merge: atomic add into receiver.f of source.f, and source.f zeroed
		added, zeroed := false, false
		for _, in := range p.Info(merge).Instrs {
			if k, addr := atomicOp(in); k == "Add" {
				af, ab := addrField(addr)
				if ia, ok := strip(addr).(*ssa.IndexAddr); ok {
					af, ab = addrField(ia.X)
				}
				if af == f && strip(ab) == recv {
					// value comes from the source's field
					v := callOf(in).Args[1]
					vf, vb := loadedField(v)
					if vf == f && strip(vb) == src {
						added = true
					} else if _, isPhiOrElem := strip(v).(*ssa.UnOp); isPhiOrElem || true {
						// element of the source array (range value)
						if fromArrayField(v, f, src) {
							added = true
						}
					}
				}
			}
			if s, ok := in.(*ssa.Store); ok {
				sf, sb := addrField(s.Addr)
				if ia, ok := s.Addr.(*ssa.IndexAddr); ok {
					sf, sb = addrField(ia.X)
				}
				if sf == f && strip(sb) == src && isConstInt(0)(s.Val) {
					zeroed = true
				}
			}
		}
		// or through a drain helper: h(&recv.f, &src.f) whose body adds *src atomically into *dst and zeroes *src
		for _, in := range p.Info(merge).Instrs {
			cc := callOf(in)
			if cc == nil || cc.StaticCallee() == nil || len(cc.Args) < 2 {
				continue
			}
			h := cc.StaticCallee()
			if h.Blocks == nil || h.Package() != merge.Package() {
				continue
			}
			df, db := addrField(cc.Args[len(cc.Args)-2])
			sf, sb := addrField(cc.Args[len(cc.Args)-1])
			if df != f || sf != f || strip(db) != recv || strip(sb) != src {
				continue
			}
			hd, hs := ssa.Value(h.Params[len(h.Params)-2]), ssa.Value(h.Params[len(h.Params)-1])
			for _, hin := range p.Info(h).Instrs {
				if k, addr := atomicOp(hin); k == "Add" && addr == hd {
					if ld, ok := callOf(hin).Args[1].(*ssa.UnOp); ok && ld.X == hs {
						added = true
					}
				}
				if st, ok := hin.(*ssa.Store); ok && st.Addr == hs && isConstInt(0)(st.Val) {
					zeroed = true
				}
			}
		}
		c.Check(added, merge, nil, "Merge adds "+f.Name()+" atomically into the receiver", "a statistics field is not merged: local (writer/worker/segment) contributions to "+f.Name()+" are lost")
		c.Check(zeroed, merge, nil, "Merge zeroes "+f.Name()+" in the source", "a merged local counter is not reset: it is added again by the next merge")
		// Apply reads it
		read := false
		for _, in := range p.Info(apply).Instrs {
			if v, ok := in.(ssa.Value); ok {
				if lf, _ := loadedField(v); lf == f {
					read = true
				}
			}
			if fa, ok := in.(*ssa.FieldAddr); ok && fieldVarOf(fa) == f {
				read = true
			}
		}
		c.Check(read, apply, nil, "StatsReport.Apply includes "+f.Name(), "a statistics field is not reported")
	}
	if n < 7 {
		undecidedf("Stats has only %d counters", n)
	}
}

func fromArrayField(v ssa.Value, f *types.Var, base ssa.Value) bool {
	seen := map[ssa.Value]bool{}
	var walk func(v ssa.Value, d int) bool
	walk = func(v ssa.Value, d int) bool {
		v = strip(v)
		if d > 6 || seen[v] {
			return false
		}
		seen[v] = true
		if lf, lb := loadedField(v); lf == f && strip(lb) == base {
			return true
		}
		switch x := v.(type) {
		case *ssa.UnOp:
			return walk(x.X, d+1)
		case *ssa.IndexAddr:
			af, ab := addrField(x.X)
			if af == f && strip(ab) == base {
				return true
			}
			return walk(x.X, d+1)
		case *ssa.Index:
			return walk(x.X, d+1)
		case *ssa.Alloc:
			for _, r := range referrersOf(x) {
				if st, ok := r.(*ssa.Store); ok && st.Addr == ssa.Value(x) && walk(st.Val, d+1) {
					return true
				}
			}
		case *ssa.Extract:
			return walk(x.Tuple, d+1)
		case *ssa.Next:
			return walk(x.Iter, d+1)
		case *ssa.Range:
			return walk(x.X, d+1)
		case *ssa.Phi:
			for _, e := range x.Edges {
				if walk(e, d+1) {
					return true
				}
			}
		}
		if lf, lb := loadedField(v); lf == f && strip(lb) == base {
			return true
		}
		return false
	}
	return walk(v, 0)
}

// C14.d every local Stats is used only by its owner and merged by it.
func clLocalStatsOwners(c *Ctx) {
	p := c.P
	merge := p.Func("skiplist", "Stats", "Merge")
	apply := p.Func("skiplist", "StatsReport", "Apply")
	owners := map[string][]string{
		"slSts1": {"nitro.(*Writer).Put2", "nitro.(*Writer).DeleteNode", "nitro.(*Nitro).NewSnapshot", "nitro.(*Nitro).LoadFromDisk", "nitro.(*Nitro).aggrStoreStats", "nitro.(*Nitro).newWriter"},
		"slSts2": {"nitro.(*Nitro).collectionWorker", "nitro.(*Nitro).aggrStoreStats", "nitro.(*Nitro).newWriter"},
		"slSts3": {"nitro.(*Nitro).freeWorker", "nitro.(*Nitro).aggrStoreStats", "nitro.(*Nitro).newWriter"},
	}
	for _, name := range []string{"slSts1", "slSts2", "slSts3"} {
		fv := p.Field("nitro", "Writer", name)
		merged, applied := false, false
		cnt := counter{}
		for _, fn := range p.Funcs {
			for _, in := range p.Own(fn) {
				fa, ok := in.(*ssa.FieldAddr)
				if !ok || fieldVarOf(fa) != fv {
					continue
				}
				okOwner := false
				for _, o := range owners[name] {
					if fname(p.Root(fn)) == o || strings.HasPrefix(fname(p.Root(fn)), o+"$") {
						okOwner = true
					}
				}
				c.Check(okOwner, fn, in, cnt.in(fn, "local statistics "+name+" used by its owning goroutine role"),
					"a non-atomic (isLocal) statistics block is updated from a goroutine that does not own it: concurrent plain increments lose updates and node/memory counters drift")
				for _, r := range referrersOf(fa) {
					if p.IsCall(r, merge) && len(callOf(r).Args) == 2 && callOf(r).Args[1] == ssa.Value(fa) {
						merged = true
					}
					if p.IsCall(r, apply) {
						applied = true
					}
				}
			}
		}
		c.Check(merged, nil, nil, "local statistics "+name+" are merged into the store statistics", "contributions of "+name+" never reach the global statistics")
		c.Check(applied, nil, nil, "local statistics "+name+" are included in aggregated reports", "DumpStats/MemoryInUse ignore "+name)
	}
	// segment statistics: every segment merged by Assemble
	asm := p.Func("skiplist", "Builder", "Assemble")
	fSts := p.Field("skiplist", "Segment", "sts")
	okSeg := false
	for _, s := range p.CallSites(asm, merge) {
		if f, _ := addrField(callOf(s).Args[1]); f == fSts && p.Info(asm).inLoop(s) {
			okSeg = true
		}
	}
	c.Check(okSeg, asm, nil, "Assemble merges the statistics of every segment", "nodes added through the builder are missing from node count / memory statistics after a restore")
	// isLocal is set for each
	c.Check(true, nil, nil, "local statistics owner table evaluated", "")
}

// ---------------------------------------------------------------------------
// C14.e node layout obligations (L8)
// ---------------------------------------------------------------------------

// globalInit: constant a package-level var is initialised with.
func (p *Prog) globalConstInit(pkg, name string) (int64, bool) {
	g := p.Global(pkg, name)
	init := p.pkg(pkg).Func("init")
	if init == nil {
		return 0, false
	}
	for _, in := range p.Info(init).Instrs {
		if st, ok := in.(*ssa.Store); ok && st.Addr == ssa.Value(g) {
			if cst, ok := strip(st.Val).(*ssa.Const); ok && cst.Value != nil && cst.Value.Kind() == constant.Int {
				n, _ := constant.Int64Val(cst.Value)
				return n, true
			}
		}
	}
	return 0, false
}

func clNodeLayout(c *Ctx) {
	p := c.P
	sizes := types.SizesFor("gc", "amd64")
	maxLevel, _ := constantInt64(p.Const("skiplist", "MaxLevel"))
	node := p.Named("skiplist", "Node").Underlying().(*types.Struct)
	var fields []*types.Var
	for i := 0; i < node.NumFields(); i++ {
		fields = append(fields, node.Field(i))
	}
	offs := sizes.Offsetsof(fields)
	var levelOff, levelSize int64 = -1, 0
	for i, f := range fields {
		if f.Name() == "level" {
			levelOff, levelSize = offs[i], sizes.Sizeof(f.Type())
		}
	}
	hdr, okH := p.globalConstInit("skiplist", "nodeHdrSize")
	refSize, okR := p.globalConstInit("skiplist", "nodeRefSize")
	if !okH || !okR {
		undecidedf("nodeHdrSize/nodeRefSize initialisers are not constants")
	}
	getNext := p.Func("skiplist", "Node", "getNext")
	c.Check(levelOff == hdr, getNext, nil, "Node.level lives at offset nodeHdrSize (inside the first reference's flag word)", fmt.Sprintf("offsetof(Node.level)=%d, nodeHdrSize=%d: the accessors address references relative to a header of a different size than the struct has", levelOff, hdr))
	c.Check(levelSize <= 7 && levelSize > 0, getNext, nil, "Node.level does not reach the mark byte of the first reference", fmt.Sprintf("sizeof(level)=%d overlaps byte 7 of the flag word that carries the delete mark", levelSize))
	ref := p.Named("skiplist", "NodeRef")
	c.Check(sizes.Sizeof(ref) == refSize && refSize == 16, getNext, nil, "nodeRefSize == sizeof(NodeRef) == 16", fmt.Sprintf("nodeRefSize=%d sizeof(NodeRef)=%d", refSize, sizes.Sizeof(ref)))
	// node types table
	init := p.pkg("skiplist").Func("init")
	nt := p.Global("skiplist", "nodeTypes")
	arr, ok := nt.Type().Underlying().(*types.Pointer).Elem().Underlying().(*types.Array)
	if !ok {
		undecidedf("nodeTypes is not an array")
	}
	c.Check(arr.Len() == maxLevel+1, getNext, nil, "nodeTypes has MaxLevel+1 entries", fmt.Sprintf("len(nodeTypes)=%d, MaxLevel+1=%d: allocating the highest level indexes out of range", arr.Len(), maxLevel+1))
	entries := map[int64]*ssa.Global{}
	for _, in := range p.Info(init).Instrs {
		st, ok := in.(*ssa.Store)
		if !ok {
			continue
		}
		ia, ok := st.Addr.(*ssa.IndexAddr)
		if !ok {
			continue
		}
		// element of the composite literal that initialises nodeTypes
		idx, isC := constInt(ia.Index)
		if !isC {
			continue
		}
		call, ok := strip(st.Val).(*ssa.Call)
		if !ok || call.Call.StaticCallee() == nil || call.Call.StaticCallee().String() != "reflect.TypeOf" {
			continue
		}
		if mi, ok := call.Call.Args[0].(*ssa.MakeInterface); ok {
			if ld, ok := mi.X.(*ssa.UnOp); ok {
				if g, ok := ld.X.(*ssa.Global); ok {
					entries[idx] = g
				}
			}
		}
	}
	if int64(len(entries)) != maxLevel+1 {
		undecidedf("nodeTypes initialiser: found %d entries", len(entries))
	}
	var idxs []int64
	for i := range entries {
		idxs = append(idxs, i)
	}
	sort.Slice(idxs, func(i, j int) bool { return idxs[i] < idxs[j] })
	for _, i := range idxs {
		g := entries[i]
		st, ok := g.Type().Underlying().(*types.Pointer).Elem().Underlying().(*types.Struct)
		okT := ok
		det := ""
		if ok {
			var fs []*types.Var
			for k := 0; k < st.NumFields(); k++ {
				fs = append(fs, st.Field(k))
			}
			o := sizes.Offsetsof(fs)
			last := st.Field(st.NumFields() - 1)
			a, isArr := last.Type().Underlying().(*types.Array)
			okT = isArr && a.Len() == i+1 && types.Identical(a.Elem(), ref) && o[len(o)-1] == hdr
			if isArr {
				det = fmt.Sprintf("entry %d is %s with buf[%d] at offset %d (header %d)", i, g.Name(), a.Len(), o[len(o)-1], hdr)
			}
		}
		c.Check(okT, getNext, nil, fmt.Sprintf("nodeTypes[%d] has %d references right after the %d-byte header", i, i+1, hdr),
			det+": a node of that level is allocated too small (heap overflow when its top levels are linked) or its references are misplaced")
	}
	// buffers hold MaxLevel+1 slots
	for _, fnm := range [][2]string{{"Skiplist", "MakeBuf"}, {"Builder", "NewSegment"}, {"Builder", "Assemble"}} {
		fn := p.Func("skiplist", fnm[0], fnm[1])
		n := 0
		okAll := true
		isNodePtr := func(t types.Type) bool {
			pt, ok := t.(*types.Pointer)
			return ok && types.Identical(pt.Elem(), p.Named("skiplist", "Node"))
		}
		for _, in := range p.Info(fn).Instrs {
			switch ms := in.(type) {
			case *ssa.MakeSlice:
				if el, ok := ms.Type().Underlying().(*types.Slice); ok && isNodePtr(el.Elem()) {
					n++
					if l, isC := constInt(ms.Len); !isC || l != maxLevel+1 {
						okAll = false
					}
				}
			case *ssa.Alloc:
				// make([]T, constant) is lowered to new [N]T + slice
				if ms.Comment != "makeslice" {
					continue
				}
				if arr, ok := ms.Type().Underlying().(*types.Pointer).Elem().Underlying().(*types.Array); ok && isNodePtr(arr.Elem()) {
					n++
					if arr.Len() != maxLevel+1 {
						okAll = false
					}
				}
			}
		}
		c.Check(n == 2 && okAll, fn, nil, fnm[1]+" allocates MaxLevel+1 slots per level buffer", "a per-level buffer is shorter than the highest level: index out of range when a node of level MaxLevel is handled")
	}
	// sentinels have MaxLevel
	nw := p.Func("skiplist", "", "NewWithConfig")
	fNewNode := p.Field("skiplist", "Skiplist", "newNode")
	sent := 0
	for _, in := range p.Info(nw).Instrs {
		if call, ok := in.(*ssa.Call); ok && call.Call.StaticCallee() == nil && lastField(call.Call.Value) == fNewNode {
			if isConstInt(maxLevel)(call.Call.Args[1]) {
				sent++
			}
		}
	}
	c.Check(sent == 2, nw, nil, "head and tail sentinels are allocated with MaxLevel", "")
	// setNext at level 0 restores the level it overwrites
	setNext := p.Func("skiplist", "Node", "setNext")
	fLevel := p.Field("skiplist", "Node", "level")
	sfi := p.Info(setNext)
	restored := false
	for _, st := range p.storesTo(setNext, fLevel) {
		if loadsField(fLevel)(st.Val) && sfi.guardedByCmp(st, token.EQL, isValue(setNext.Params[1]), isConstInt(0)) {
			// the saved value was read before the flag was zeroed
			restored = true
		}
	}
	c.Check(restored, setNext, nil, "setNext(0, ...) restores Node.level after zeroing the flag word it shares", "zeroing the first reference's flag word wipes the node's level: Size() and the per-level counters use level 0 for every node")
}

// The local/atomic decision of Stats.AddInt64/AddUint64 is made on the
// RECEIVER (isLocal): the counter it updates must be a field of that same Stats
// object, otherwise a shared counter is updated with a plain add.
func clStatsAddOnOwnObject(c *Ctx) {
	p := c.P
	addI := p.Func("skiplist", "Stats", "AddInt64")
	addU := p.Func("skiplist", "Stats", "AddUint64")
	st := p.Named("skiplist", "Stats")
	n := 0
	for _, s := range p.AllCallSites(addI, addU) {
		g := s.Parent()
		if g.Package() == nil || !strings.HasPrefix(g.Package().Pkg.Path(), modPath) {
			continue
		}
		args := callArgs(s)
		if len(args) < 2 {
			continue
		}
		n++
		// base Stats object of the counter address: strip field/index addressing down to a *Stats value
		base := args[1]
		for k := 0; k < 6; k++ {
			switch x := base.(type) {
			case *ssa.IndexAddr:
				base = x.X
				continue
			case *ssa.FieldAddr:
				if pt, ok := x.X.Type().Underlying().(*types.Pointer); ok && types.Identical(pt.Elem(), st) {
					base = x.X
					k = 99
					continue
				}
				base = x.X
				continue
			}
			break
		}
		same := strip(base) == strip(args[0]) || sameAddr(base, args[0])
		c.Check(same, g, s, "Stats.Add* updates a counter of the receiver's own Stats object",
			"the counter belongs to another Stats object than the receiver whose isLocal flag selects plain vs. atomic add: a shared counter is updated non-atomically (lost updates under concurrent segment fills) or a local one atomically")
	}
	if n < 10 {
		undecidedf("Stats.Add* call sites: only %d found", n)
	}
}

// sameAddr: two address expressions denote the same field path from the same root.
func sameAddr(a, b ssa.Value) bool {
	for k := 0; k < 6; k++ {
		a, b = strip(a), strip(b)
		if a == b {
			return true
		}
		fa, okA := a.(*ssa.FieldAddr)
		fb, okB := b.(*ssa.FieldAddr)
		if !okA || !okB || fa.Field != fb.Field {
			return false
		}
		a, b = fa.X, fb.X
	}
	return false
}

package main

import (
	"go/token"
	"go/types"

	"golang.org/x/tools/go/ssa"
)

// C08.a/d: who may write Snapshot.refCount and how.
//   - decrement: AddInt32(-1), only in Snapshot.Close
//   - increment: only a CompareAndSwap(old, old+1) whose old value was loaded
//     atomically from the same field and is known non-zero at the CAS
//   - plain stores only into objects that are fresh in the storing function
func clRefCountWrites(c *Ctx) {
	p := c.P
	fRef := p.Field("nitro", "Snapshot", "refCount")
	closeFn := p.Func("nitro", "Snapshot", "Close")
	cnt := counter{}
	incs := 0
	for _, w := range p.fieldWrites(fRef) {
		fi := p.Info(w.fn)
		switch w.kind {
		case "store":
			c.Check(isFreshBase(w.base), w.fn, w.in, cnt.in(w.fn, "plain store to refCount targets an unpublished snapshot object"),
				"the reference count of a shared snapshot is overwritten non-atomically")
		case "Add":
			n, isConst := constInt(w.val)
			switch {
			case isConst && n == -1:
				c.Check(p.sameRoot(w.fn, closeFn), w.fn, w.in, cnt.in(w.fn, "decrement of refCount"), "references are dropped only by Snapshot.Close (which also retires the snapshot at zero)")
			default:
				c.Check(false, w.fn, w.in, cnt.in(w.fn, "blind increment of refCount"),
					"the reference count is incremented unconditionally: an Open racing with the final Close revives a snapshot that was already retired (count leaves zero), and it is retired a second time")
			}
		case "CAS":
			incs++
			args := atomicArgs(w.in)
			old := strip(args[1])
			// the expected value is an atomic load of the field (possibly carried by a loop variable
			// all of whose definitions are such loads)
			var isLoadOfRef func(v ssa.Value, seen map[ssa.Value]bool) bool
			isLoadOfRef = func(v ssa.Value, seen map[ssa.Value]bool) bool {
				v = strip(v)
				if seen[v] {
					return true
				}
				seen[v] = true
				switch x := v.(type) {
				case *ssa.Call:
					k, on := atomicOnField(x, fRef)
					return on && k == "Load"
				case *ssa.Phi:
					for _, e := range x.Edges {
						if !isLoadOfRef(e, seen) {
							return false
						}
					}
					return len(x.Edges) > 0
				}
				return false
			}
			fromLoad := isLoadOfRef(old, map[ssa.Value]bool{})
			c.Check(fromLoad, w.fn, w.in, cnt.in(w.fn, "CAS expects the atomically loaded count"), "the expected value of the increment CAS is not an atomic load of the same field")
			plus1 := false
			if b, ok := strip(args[2]).(*ssa.BinOp); ok && b.Op == token.ADD {
				plus1 = (strip(b.X) == old && isConstInt(1)(b.Y)) || (strip(b.Y) == old && isConstInt(1)(b.X))
			}
			c.Check(plus1, w.fn, w.in, cnt.in(w.fn, "CAS installs loaded count + 1"), "the new value is not expected+1")
			nonzero := fi.guardedByCmp(w.in, token.NEQ, isValue(old), isConstInt(0)) || fi.guardedByCmp(w.in, token.GTR, isValue(old), isConstInt(0))
			c.Check(nonzero, w.fn, w.in, cnt.in(w.fn, "CAS only from a non-zero count"), "a reference can be taken on a snapshot whose count already dropped to zero (it was retired)")
		default:
			c.Check(false, w.fn, w.in, cnt.in(w.fn, "atomic "+w.kind+" on refCount"), "the reference count is overwritten")
		}
	}
	// Open: success only through a successful CAS, failure only on zero
	open := p.Func("nitro", "Snapshot", "Open")
	fi := p.Info(open)
	for _, ret := range fi.Returns() {
		if len(ret.Results) != 1 {
			continue
		}
		var in ssa.Instruction = ret
		b, isC := constBool(fi.RetVal(ret, 0))
		if !isC {
			c.Undecided(open, in, "Open result", "non-constant result")
			continue
		}
		if b {
			won := fi.Guarded(in, func(v ssa.Value, val bool) bool {
				call, ok := fi.resolveCell(v).(*ssa.Call)
				if !ok || !val {
					return false
				}
				k, on := atomicOnField(call, fRef)
				return on && k == "CAS"
			})
			c.Check(won, open, in, "Open returns true only after its CAS succeeded", "Open reports success without having taken a reference")
		} else {
			var loadOrPhi func(v ssa.Value, seen map[ssa.Value]bool) bool
			loadOrPhi = func(v ssa.Value, seen map[ssa.Value]bool) bool {
				v = strip(v)
				if seen[v] {
					return true
				}
				seen[v] = true
				switch x := v.(type) {
				case *ssa.Call:
					k, on := atomicOnField(x, fRef)
					return on && k == "Load"
				case *ssa.Phi:
					for _, e := range x.Edges {
						if !loadOrPhi(e, seen) {
							return false
						}
					}
					return len(x.Edges) > 0
				}
				return false
			}
			zero := fi.guardedByCmp(in, token.EQL, func(v ssa.Value) bool { return loadOrPhi(v, map[ssa.Value]bool{}) }, isConstInt(0)) ||
				fi.guardedByCmp(in, token.LEQ, func(v ssa.Value) bool { return loadOrPhi(v, map[ssa.Value]bool{}) }, isConstInt(0))
			c.Check(zero, open, in, "Open returns false only on a zero count", "Open refuses a snapshot that is still referenced")
		}
	}
	if incs == 0 {
		c.Check(false, open, nil, "increment of refCount by CAS", "no conditional increment of the reference count found")
	}
}

// C08.c: one reference per iterator, paired.
func clIteratorRefPairing(c *Ctx) {
	p := c.P
	newIt := p.Func("nitro", "Nitro", "NewIterator")
	snapNewIt := p.Func("nitro", "Snapshot", "NewIterator")
	open := p.Func("nitro", "Snapshot", "Open")
	snapClose := p.Func("nitro", "Snapshot", "Close")
	itClose := p.Func("nitro", "Iterator", "Close")
	fSnap := p.Field("nitro", "Iterator", "snap")
	slItClose := p.Func("skiplist", "Iterator", "Close")
	fIter := p.Field("nitro", "Iterator", "iter")

	// NewIterator: non-nil only when Open succeeded; Open called once
	fi := p.Info(newIt)
	opens := p.CallSites(newIt, open)
	c.Check(len(opens) == 1 && !fi.inLoop(opens[0]), newIt, nil, "exactly one Open per iterator", "an iterator must take exactly one reference on its snapshot")
	for _, ret := range fi.Returns() {
		if len(ret.Results) != 1 || isNilConst(fi.RetVal(ret, 0)) {
			continue
		}
		var in ssa.Instruction = ret
		c.Check(fi.guardedByCall(in, true, open), newIt, in, "iterator handed out only if Open succeeded", "NewIterator returns an iterator on a snapshot it holds no reference on (the snapshot may already be retired and its items collected)")
		// the iterator remembers the snapshot it opened
		okSnap := false
		for _, st := range p.storesTo(newIt, fSnap) {
			if len(opens) == 1 && strip(st.Val) == strip(callOf(opens[0]).Args[0]) {
				okSnap = true
			}
		}
		c.Check(okSnap, newIt, in, "iterator records the snapshot it opened", "Iterator.Close would release a different snapshot than the one opened")
	}
	// nothing that releases a snapshot reference runs unless Open succeeded
	relFns := map[*ssa.Function]bool{}
	for _, g := range p.Funcs {
		for _, h := range p.reachableFrom(g) {
			if h == snapClose {
				relFns[g] = true
				break
			}
		}
	}
	for _, in := range fi.Instrs {
		ci, ok := in.(ssa.CallInstruction)
		if !ok {
			continue
		}
		rel := false
		for _, cal := range p.Callees(in) {
			if relFns[cal] {
				rel = true
			}
		}
		if !rel {
			continue
		}
		_, isDefer := ci.(*ssa.Defer)
		c.Check(!isDefer && fi.guardedByCall(in, true, open), newIt, in, "NewIterator releases a snapshot reference only if its own Open succeeded",
			"the refused-Open path runs "+p.calleeName(in)+", which drops a reference that was never taken: the count of a retired snapshot goes below zero and a later Open succeeds on it")
	}
	// Iterator.Close releases exactly one reference, of it.snap, on every path
	cfi := p.Info(itClose)
	closes := p.CallSites(itClose, snapClose)
	if c.Check(len(closes) == 1, itClose, nil, "Iterator.Close releases one snapshot reference", "an iterator must drop exactly the one reference it holds") {
		cl := closes[0]
		f, b := loadedField(callOf(cl).Args[0])
		c.Check(f == fSnap && strip(b) == strip(itClose.Params[0]), itClose, cl, "the released snapshot is it.snap", "Iterator.Close releases some other snapshot")
		c.Check(cfi.PathAvoiding(nil, isReturn, func(x ssa.Instruction) bool { return x == cl }) == nil && !cfi.inLoop(cl), itClose, cl, "reference released on every path exactly once", "some path through Iterator.Close keeps (or double-drops) the snapshot reference")
	}
	// and leaves the barrier session of the underlying cursor
	scl := p.CallSites(itClose, slItClose)
	okS := len(scl) >= 1
	for _, s := range scl {
		if f, _ := loadedField(callOf(s).Args[0]); f != fIter {
			okS = false
		}
		if cfi.PathAvoiding(nil, isReturn, func(x ssa.Instruction) bool { return x == s }) != nil {
			okS = false
		}
	}
	c.Check(okS, itClose, nil, "Iterator.Close releases the underlying cursor's barrier session", "a closed iterator keeps its barrier session: reclamation of every later session is blocked for ever")

	// every iterator created inside the module is closed on every normal path
	cnt := counter{}
	for _, site := range p.AllCallSites(newIt, snapNewIt) {
		fn := site.Parent()
		if fn.Package().Pkg.Path() != modPath && fn.Package().Pkg.Path() != modPath+"/examples" {
			continue
		}
		call, ok := site.(*ssa.Call)
		if !ok {
			continue
		}
		// delegation: the iterator is returned to the caller
		returned := false
		for _, r := range referrersOf(call) {
			if _, ok := r.(*ssa.Return); ok {
				returned = true
			}
		}
		if returned {
			continue
		}
		sfi := p.Info(fn)
		isCloseOf := func(x ssa.Instruction) bool {
			cc := callOf(x)
			if cc == nil || !p.CallsAny(x, itClose) {
				return false
			}
			if _, isGo := x.(*ssa.Go); isGo {
				return false
			}
			return sfi.resolveCell(cc.Args[0]) == ssa.Value(call) || strip(cc.Args[0]) == ssa.Value(call) || cellHolds(sfi, cc.Args[0], call)
		}
		leak := sfi.PathAvoiding(site, isReturn, func(x ssa.Instruction) bool {
			if isCloseOf(x) {
				return true
			}
			// a nil result needs no Close
			return false
		})
		if leak != nil {
			// tolerate the path on which the iterator is nil
			if sfi.guardedByCmp(leak, token.EQL, func(v ssa.Value) bool { return sfi.resolveCell(v) == ssa.Value(call) || v == ssa.Value(call) }, isNilConst) {
				leak = nil
			}
		}
		c.Check(leak == nil, fn, site, cnt.in(fn, "iterator closed on every path"), "an iterator (and its snapshot reference and barrier session) is leaked on a path to return: the snapshot is never retired and collection stops at it")
	}
}

// cellHolds: v is a load of a local cell into which `val` was stored.
func cellHolds(fi *FuncInfo, v ssa.Value, val ssa.Value) bool {
	al := cellOf(v)
	if al == nil {
		return false
	}
	n := 0
	ok := false
	for _, r := range referrersOf(al) {
		if st, isS := r.(*ssa.Store); isS && st.Addr == ssa.Value(al) {
			n++
			if st.Val == val {
				ok = true
			}
		}
	}
	return ok && n == 1
}

// C08.c: the snapClosed idiom of StoreToDisk – exactly one Close of the
// caller's snapshot reference on every exit.
func clStoreToDiskSnapRef(c *Ctx) {
	p := c.P
	fn := p.Func("nitro", "Nitro", "StoreToDisk")
	fi := p.Info(fn)
	snapClose := p.Func("nitro", "Snapshot", "Close")
	// the deferred closure that closes the snapshot unless flagged
	var dcl *ssa.Function
	var dfr *ssa.Defer
	var flag *ssa.Alloc
	for cl, d := range deferredClosures(fn) {
		cfi := p.Info(cl)
		for _, s := range p.CallSites(cl, snapClose) {
			// guarded by !flag where flag is a captured bool
			cfi.Guarded(s, func(v ssa.Value, val bool) bool {
				u, ok := v.(*ssa.UnOp)
				if !ok || val {
					return false
				}
				fv, ok := u.X.(*ssa.FreeVar)
				if !ok {
					return false
				}
				if al, ok := closureBinding(cl, fv).(*ssa.Alloc); ok {
					if bt, ok := al.Type().Underlying().(*types.Pointer).Elem().Underlying().(*types.Basic); ok && bt.Kind() == types.Bool {
						dcl, dfr, flag = cl, d, al
						return true
					}
				}
				return false
			})
		}
	}
	if !c.Check(dcl != nil, fn, nil, "deferred release of the snapshot reference unless already released", "StoreToDisk no longer releases the caller's snapshot reference on its exits (leak: the snapshot is never retired) or releases it unconditionally (double release)") {
		return
	}
	// the defer is registered before any return
	allDom := true
	for _, ret := range fi.Returns() {
		if !fi.Dominates(dfr, ret) {
			allDom = false
		}
	}
	c.Check(allDom, fn, dfr, "deferred release dominates every return", "some return is not covered by the deferred release")
	// explicit closes in the body are immediately followed by flag = true, and vice versa
	var explicit []ssa.Instruction
	for _, s := range p.CallSites(fn, snapClose) {
		if _, ok := s.(*ssa.Call); ok {
			explicit = append(explicit, s)
		}
	}
	for _, s := range explicit {
		follow := fi.MustFollow(s, func(x ssa.Instruction) bool {
			st, ok := x.(*ssa.Store)
			if !ok || st.Addr != ssa.Value(flag) {
				return false
			}
			b, isC := constBool(st.Val)
			return isC && b
		})
		// nothing that can return/panic-free exit in between: same block
		same := false
		for _, x := range s.Block().Instrs {
			if st, ok := x.(*ssa.Store); ok && st.Addr == ssa.Value(flag) && fi.idx[x] > fi.idx[s] {
				same = true
			}
		}
		c.Check(follow && same, fn, s, "explicit snapshot release is followed by marking it released", "after the early snap.Close() the deferred function closes the snapshot again (reference count drops below its holders)")
		c.Check(!fi.inLoop(s), fn, s, "explicit snapshot release happens once", "the snapshot is released repeatedly")
	}
	for _, r := range referrersOf(flag) {
		st, ok := r.(*ssa.Store)
		if !ok || st.Addr != ssa.Value(flag) {
			continue
		}
		if b, isC := constBool(st.Val); isC && b {
			pre := false
			for _, s := range explicit {
				if s.Block() == st.Block() && fi.idx[s] < fi.idx[st] {
					pre = true
				}
			}
			c.Check(pre, fn, st, "released flag set only right after an explicit release", "the snapshot is marked released without being released: StoreToDisk leaks the caller's reference")
		}
	}
}

package main

import (
	"fmt"
	"go/token"
	"go/types"
	"strings"

	"golang.org/x/tools/go/ssa"
)

func backupScope(p *Prog) []*ssa.Function {
	st := p.Func("nitro", "Nitro", "StoreToDisk")
	seen := map[*ssa.Function]bool{}
	var out []*ssa.Function
	add := func(f *ssa.Function) {
		if f != nil && !seen[f] && f.Blocks != nil {
			seen[f] = true
			out = append(out, f)
		}
	}
	for _, f := range WithAnon(st) {
		add(f)
	}
	for _, n := range []string{"Open", "WriteItem", "Close", "Checksum"} {
		add(p.FuncOpt("nitro", "rawFileWriter", n))
	}
	add(p.Func("nitro", "Nitro", "EncodeItem"))
	add(p.Func("nitro", "Nitro", "changeDeltaWrState"))
	add(p.Func("nitro", "Writer", "doDeltaWrite"))
	add(p.Func("nitro", "Writer", "doCheckpoint"))
	for _, f := range WithAnon(p.Func("nitro", "Nitro", "Visitor")) {
		add(f)
	}
	return out
}

// errOverwrittenInLoop: the error value ev only feeds a loop-carried variable
// that is not examined inside the loop: all but the last iteration's error
// are lost.
func errOverwrittenInLoop(ev ssa.Value) (bool, *ssa.Phi) {
	chain := map[ssa.Value]bool{ev: true}
	work := []ssa.Value{ev}
	var headerPhi *ssa.Phi
	for len(work) > 0 {
		v := work[len(work)-1]
		work = work[:len(work)-1]
		for _, r := range referrersOf(v) {
			if ph, ok := r.(*ssa.Phi); ok && !chain[ph] {
				chain[ph] = true
				work = append(work, ph)
			}
		}
	}
	for v := range chain {
		ph, ok := v.(*ssa.Phi)
		if !ok {
			continue
		}
		h := ph.Block()
		for i, pred := range h.Preds {
			if (h.Dominates(pred) || h == pred) && chain[ph.Edges[i]] {
				headerPhi = ph
			}
		}
	}
	if headerPhi == nil {
		return false, nil
	}
	h := headerPhi.Block()
	// any real (non-phi) use of a chain value inside the loop?
	for v := range chain {
		for _, r := range referrersOf(v) {
			if _, isPhi := r.(*ssa.Phi); isPhi {
				continue
			}
			for _, pred := range h.Preds {
				if (h.Dominates(pred) || h == pred) && inNaturalLoop(h, pred, r.Block()) {
					return false, nil
				}
			}
		}
	}
	return true, headerPhi
}

// C12.a + C12.d (L6a): no write/flush/close/manifest error is dropped on the
// backup path, and none is carried in a variable that later iterations
// overwrite unseen.
func clBackupErrors(c *Ctx) {
	p := c.P
	scope := backupScope(p)
	why := "a failed write, flush, close or manifest write is not reported: StoreToDisk returns success for a backup that cannot be restored"
	n := clNoDroppedErrors(c, scope, []tolerance{
		{"os.MkdirAll", "", "a directory that cannot be created makes the following Open fail, whose error is returned"},
		{"encoding/json.Marshal", "", "marshalling []string/[]uint32/map[string]int cannot fail"},
	}, func(name string) bool {
		return !strings.Contains(name, "Fprint") && !strings.Contains(name, "Printf")
	}, why)
	// loop-carried overwrite
	cnt := counter{}
	for _, fn := range scope {
		for _, in := range p.Info(fn).Instrs {
			ev, has := errResult(in)
			if !has || ev == nil {
				continue
			}
			if lost, ph := errOverwrittenInLoop(ev); lost {
				c.Check(false, fn, in, cnt.in(fn, "error of "+p.calleeName(in)+" survives later loop iterations"),
					fmt.Sprintf("the error is kept in loop variable %s that the next iteration overwrites without looking at it: only the last iteration's error is reported; %s", ph.Comment, why))
			}
		}
	}
	if n < 10 {
		undecidedf("backup path: only %d error-returning calls found", n)
	}
	// errors dropped on a path that already reports another error are fine – handled by tolerance below
}

// namedErrCell finds the named error result cell of fn (spilled because
// deferred closures capture it).
func namedErrCell(fn *ssa.Function) *ssa.Alloc {
	res := fn.Signature.Results()
	if res.Len() == 0 || res.At(res.Len()-1).Name() == "" || res.At(res.Len()-1).Name() == "_" {
		return nil // unnamed result: deferred functions cannot change what is returned
	}
	for _, in := range fn.Blocks[0].Instrs {
		if al, ok := in.(*ssa.Alloc); ok {
			if types.Identical(al.Type().Underlying().(*types.Pointer).Elem(), errorType) && al.Comment != "" {
				// a result variable: it is loaded right before a Return
				for _, r := range referrersOf(al) {
					if ld, ok := r.(*ssa.UnOp); ok {
						for _, rr := range referrersOf(ld) {
							if _, isRet := rr.(*ssa.Return); isRet {
								return al
							}
						}
					}
				}
			}
		}
	}
	return nil
}

// C12.b (L6b): a deferred function never erases an earlier error.
func clDeferKeepsError(c *Ctx, fns []*ssa.Function) {
	p := c.P
	cnt := counter{}
	n := 0
	for _, fn := range fns {
		cell := namedErrCell(fn)
		if cell == nil {
			continue
		}
		for cl := range deferredClosures(fn) {
			cfi := p.Info(cl)
			var fv *ssa.FreeVar
			for _, f := range cl.FreeVars {
				if closureBinding(cl, f) == ssa.Value(cell) {
					fv = f
				}
			}
			if fv == nil {
				continue
			}
			for _, in := range cfi.Instrs {
				st, ok := in.(*ssa.Store)
				if !ok || st.Addr != ssa.Value(fv) {
					continue
				}
				n++
				// guarded by (current value of the result) == nil, read after the last store
				ok2 := cfi.Guarded(st, func(v ssa.Value, val bool) bool {
					cmp, isCmp := cmpOf(v, val)
					if !isCmp || cmp.Op != token.EQL {
						return false
					}
					var ld ssa.Value
					switch {
					case cellAddr(cmp.X) == ssa.Value(fv) && isNilConst(cmp.Y):
						ld = cmp.X
					case cellAddr(cmp.Y) == ssa.Value(fv) && isNilConst(cmp.X):
						ld = cmp.Y
					default:
						return false
					}
					// no store to the result between that load and this store
					stale := cfi.PathAvoiding(ld.(ssa.Instruction), func(x ssa.Instruction) bool {
						s2, isS := x.(*ssa.Store)
						return isS && s2.Addr == ssa.Value(fv) && s2 != st && cfi.Reaches(s2, st)
					}, func(x ssa.Instruction) bool { return x == ssa.Instruction(st) })
					return stale == nil
				})
				c.Check(ok2, cl, st, cnt.in(cl, "deferred assignment to the error result only while it is nil"),
					"a deferred function overwrites the function's error result unconditionally: an error found earlier (e.g. a failed shard write) is replaced by the deferred step's nil and the caller sees success")
			}
		}
	}
	// deferred error handling needs a named result to report through
	for _, fn := range fns {
		if namedErrCell(fn) != nil {
			continue
		}
		for cl := range deferredClosures(fn) {
			for _, in := range p.Info(cl).Instrs {
				if ev, has := errResult(in); has && ev != nil && len(p.errSinks(ev)) > 0 {
					n++
					c.Check(false, cl, in, cnt.in(cl, "error found by a deferred function reaches the caller through a named result"),
						"the function's error result is not a named result, so what its deferred functions assign (writer Close errors, the terminate handshake, delta manifest writes) is discarded: the value returned was fixed before they ran")
				}
			}
		}
	}
	if n == 0 {
		undecidedf("no deferred assignment to a named error result found")
	}
}

// C12.c: manifests are written only after what they describe succeeded.
func clManifestsAfterSuccess(c *Ctx) {
	p := c.P
	fn := p.Func("nitro", "Nitro", "StoreToDisk")
	visitor := p.Func("nitro", "Nitro", "Visitor")
	handshake := p.Func("nitro", "Nitro", "changeDeltaWrState")
	cnt := counter{}
	type wsite struct {
		fn    *ssa.Function
		in    ssa.Instruction
		label string
	}
	var writes []wsite
	isWriteFile := func(in ssa.Instruction) bool {
		cc := callOf(in)
		if cc == nil || cc.StaticCallee() == nil {
			return false
		}
		n := cc.StaticCallee().String()
		return n == "io/ioutil.WriteFile" || n == "os.WriteFile"
	}
	family := map[*ssa.Function]bool{}
	for _, f := range WithAnon(fn) {
		family[f] = true
	}
	helperOf := map[ssa.Instruction]*ssa.Function{}
	for _, f := range WithAnon(fn) {
		for _, in := range p.Info(f).Instrs {
			if isWriteFile(in) {
				writes = append(writes, wsite{f, in, pathLabel(callOf(in).Args[0])})
				continue
			}
			// a shared (multi-call-site) helper that writes manifests: its call stands for the writes inside
			cc := callOf(in)
			if cc == nil || cc.StaticCallee() == nil {
				continue
			}
			h := cc.StaticCallee()
			if h.Blocks == nil || h.Package() == nil || h.Package().Pkg.Path() != modPath || family[h] || p.helperCall(in) != nil {
				continue
			}
			for _, hin := range p.Info(h).Instrs {
				if isWriteFile(hin) {
					writes = append(writes, wsite{f, in, pathLabelAt(callOf(hin).Args[0], h, in)})
					helperOf[in] = h
				}
			}
		}
	}
	find := func(f *ssa.Function, label string) ssa.Instruction {
		for _, w := range writes {
			if w.fn == f && strings.HasSuffix(w.label, label) {
				return w.in
			}
		}
		return nil
	}
	errCell := namedErrCell(fn)
	// guardedByNilErrOf: site guarded by (error result of call `of`) == nil
	guardedByNilOf := func(f *ssa.Function, at ssa.Instruction, of ssa.Instruction) bool {
		fi := p.Info(f)
		ev, _ := errResult(of)
		return fi.Guarded(at, func(v ssa.Value, val bool) bool {
			cmp, ok := cmpOf(v, val)
			if !ok || cmp.Op != token.EQL {
				return false
			}
			x := cmp.X
			if isNilConst(x) {
				x = cmp.Y
			} else if !isNilConst(cmp.Y) {
				return false
			}
			return fi.resolveCell(x) == ev || x == ev
		})
	}
	// data manifests (in the body)
	vs := p.CallSites(fn, visitor)
	if len(vs) != 1 {
		undecidedf("StoreToDisk: expected one Visitor call, found %d", len(vs))
	}
	fj := find(fn, "files.json")
	cj := find(fn, "checksums.json")
	nj := find(fn, "nitro.json")
	if c.Check(nj != nil, fn, nil, "format version manifest (nitro.json) is written", "the backup no longer records its format version") && fj != nil {
		c.Check(guardedByNilOf(fn, fj, nj) && guardedByNilOf(fn, vs[0], nj), fn, nj, "nitro.json is written (successfully) before the scan and the data manifests",
			"the version manifest is written after files.json: a process death (or a failed later write) leaves a directory with files.json but without nitro.json, which LoadFromDisk reads as format version 0 — every current-format shard then looks empty and an empty snapshot is restored as success")
	}
	if c.Check(fj != nil && cj != nil, fn, nil, "data manifests are written", "StoreToDisk no longer writes data/files.json and data/checksums.json") {
		c.Check(guardedByNilOf(fn, fj, vs[0]), fn, fj, "data/files.json only after the scan succeeded", "the file list is written although the scan failed (or before it ran): a partial backup looks complete to LoadFromDisk")
		if h := helperOf[cj]; h != nil && cj == fj {
			// both manifests are written by one helper: the ordering is decided inside it
			var hf, hc ssa.Instruction
			for _, hin := range p.Info(h).Instrs {
				if isWriteFile(hin) {
					if strings.HasSuffix(pathLabel(callOf(hin).Args[0]), "files.json") {
						hf = hin
					} else if strings.HasSuffix(pathLabel(callOf(hin).Args[0]), "checksums.json") {
						hc = hin
					}
				}
			}
			c.Check(hf != nil && hc != nil && guardedByNilOf(h, hc, hf), h, hc, "checksums.json only after files.json was written", "checksums are written although the file list could not be")
		} else {
			c.Check(guardedByNilOf(fn, cj, fj), fn, cj, "data/checksums.json only after files.json was written", "checksums are written although the file list could not be")
		}
		// checksums sampled before the manifest is written
	}
	// delta manifests (in a deferred closure that performs the terminate handshake)
	for _, f := range WithAnon(fn) {
		hs := p.CallSites(f, handshake)
		dfj := find(f, "files.json")
		if f == fn || len(hs) == 0 || dfj == nil {
			continue
		}
		dcj := find(f, "checksums.json")
		fi := p.Info(f)
		// the handshake result is merged into the function's error before the manifests
		ev, _ := errResult(hs[0])
		merged := ev != nil && len(p.errSinks(ev)) > 0
		c.Check(merged && fi.Dominates(hs[0], dfj), f, hs[0], "terminate handshake result reaches the error result before the delta manifests", "write errors reported by the GC workers at the terminate handshake are lost")
		var fv ssa.Value
		for _, x := range f.FreeVars {
			if closureBinding(f, x) == ssa.Value(errCell) {
				fv = x
			}
		}
		nilErr := func(at ssa.Instruction) bool {
			return fi.Guarded(at, func(v ssa.Value, val bool) bool {
				cmp, ok := cmpOf(v, val)
				if !ok || cmp.Op != token.EQL || fv == nil {
					return false
				}
				ld := cmp.X
				if isNilConst(ld) {
					ld = cmp.Y
				}
				if cellAddr(ld) != fv {
					return false
				}
				// the load happens after the handshake was merged
				return fi.Dominates(hs[0], ld.(ssa.Instruction))
			})
		}
		c.Check(nilErr(dfj), f, dfj, cnt.in(f, "delta/files.json only when scan and handshake succeeded"), "the delta manifest is written although the backup already failed: LoadFromDisk would accept the partial delta")
		if dcj != nil && !(helperOf[dcj] != nil && dcj == dfj) {
			c.Check(guardedByNilOf(f, dcj, dfj), f, dcj, cnt.in(f, "delta/checksums.json only after delta/files.json was written"), "")
		}
	}
}

// C12.d: the GC workers' write error travels through the handshake.
func clHandshakeCarriesError(c *Ctx) {
	p := c.P
	ck := p.Func("nitro", "Writer", "doCheckpoint")
	fi := p.Info(ck)
	fErr := p.Field("nitro", "deltaWrContext", "err")
	fState := p.Field("nitro", "deltaWrContext", "state")
	fNotify := p.Field("nitro", "deltaWrContext", "notifyStatus")
	term, _ := constantInt64(p.Const("nitro", "dwStateTerminate"))
	inactive, _ := constantInt64(p.Const("nitro", "dwStateInactive"))
	stateIs := func(at ssa.Instruction, n int64) bool {
		return fi.guardedByCmp(at, token.EQL, loadsField(fState), isConstInt(n))
	}
	sentErr := false
	for _, in := range fi.Instrs {
		s, ok := in.(*ssa.Send)
		if !ok || lastField(s.Chan) != fNotify {
			continue
		}
		if f, _ := loadedField(s.X); f == fErr {
			sentErr = true
			c.Check(stateIs(in, term), ck, in, "recorded delta write error is reported at the terminate handshake", "")
		} else if stateIs(in, term) {
			c.Check(false, ck, in, "recorded delta write error is reported at the terminate handshake", "the terminate handshake answers something else than the writer context's recorded error")
		}
	}
	c.Check(sentErr, ck, nil, "terminate handshake sends ctx.err", "the GC worker no longer reports its recorded delta write error to StoreToDisk")
	for _, st := range p.storesTo(ck, fErr) {
		c.Check(isNilConst(st.Val) && !stateIs(st, term) && !stateIs(st, inactive), ck, st, "ctx.err cleared only when a new backup starts", "the recorded write error is cleared before it was reported")
	}
	// checkpoint state machine: Init -> Active (answer nil), Terminate -> Inactive (answer ctx.err); one answer per request
	active, _ := constantInt64(p.Const("nitro", "dwStateActive"))
	initS, _ := constantInt64(p.Const("nitro", "dwStateInit"))
	var toActive, toInactive bool
	for _, st := range p.storesTo(ck, fState) {
		n, isC := constInt(st.Val)
		switch {
		case isC && n == active:
			toActive = stateIs(st, initS)
			c.Check(toActive, ck, st, "logging becomes active exactly on the init request", "the GC worker switches delta logging on in another state than Init")
		case isC && n == inactive:
			toInactive = stateIs(st, term)
			c.Check(toInactive, ck, st, "logging becomes inactive exactly on the terminate request", "")
		default:
			c.Check(false, ck, st, "checkpoint only moves Init->Active and Terminate->Inactive", "unexpected state transition in the GC worker's checkpoint")
		}
	}
	c.Check(toActive, ck, nil, "init request activates delta logging in the GC worker", "after the init handshake the GC worker still does not log collected items: every item collected during the backup is missing from the delta files")
	c.Check(toInactive, ck, nil, "terminate request deactivates delta logging", "the GC worker keeps writing into delta writers that StoreToDisk closes")
	nInit, nTerm := 0, 0
	for _, in := range fi.Instrs {
		if s, ok := in.(*ssa.Send); ok && lastField(s.Chan) == fNotify && !fi.inLoop(in) {
			if stateIs(in, initS) {
				nInit++
			}
			if stateIs(in, term) {
				nTerm++
			}
		}
	}
	c.Check(nInit == 1 && nTerm == 1, ck, nil, "each handshake request is answered exactly once", "an unanswered (or doubly answered) handshake blocks StoreToDisk or a later handshake for ever")
	// the GC worker serves handshake requests and announces its shutdown
	cw := p.Func("nitro", "Nitro", "collectionWorker")
	cwfi := p.Info(cw)
	fClosedCh := p.Field("nitro", "deltaWrContext", "closed")
	served := len(p.CallSites(cw, ck)) >= 1
	c.Check(served, cw, nil, "collection worker answers delta handshake requests (doCheckpoint)", "StoreToDisk with delta interleaving blocks for ever in its handshake")
	announced := false
	for _, in := range cwfi.Instrs {
		if isBuiltin(in, "close") && lastField(callOf(in).Args[0]) == fClosedCh {
			announced = true
		}
	}
	c.Check(announced, cw, nil, "collection worker closes its 'closed' channel when gcchan is closed", "a StoreToDisk racing with Close blocks for ever in its handshake instead of returning ErrShutdown")
	// changeDeltaWrState returns what it received
	ch := p.Func("nitro", "Nitro", "changeDeltaWrState")
	cfi := p.Info(ch)
	okRecv := false
	for _, in := range cfi.Instrs {
		sel, ok := in.(*ssa.Select)
		if !ok {
			continue
		}
		for i, stt := range sel.States {
			if stt.Dir != types.RecvOnly || lastField(stt.Chan) != fNotify {
				continue
			}
			k := 2
			for j := 0; j < i; j++ {
				if sel.States[j].Dir == types.RecvOnly {
					k++
				}
			}
			for _, r := range referrersOf(sel) {
				if e, ok := r.(*ssa.Extract); ok && e.Index == k {
					if len(p.errSinks(e)) > 0 {
						okRecv = true
					}
				}
			}
		}
	}
	c.Check(okRecv, ch, nil, "handshake reply is returned to StoreToDisk", "the error received from a GC worker at the handshake is dropped")
}

package main

func init() {
	register(&PropCheck{
		ID: "C06",
		Explanation: "Decides structural necessary conditions of precise and complete collection: (a) who may write the GC link of nodes and the writers' list ends, and that DeleteNode does so only as the winner; (b) NewSnapshot's stitch loop resets/merges every writer on every iteration and links lists only when both are non-empty; " +
			"(c) Close retires on the decrement's own result in the order delete, insert, GC; the collector runs only under its try-lock, releases it on every path, and hands lists out strictly in order; (d) the collection worker unlinks every node of a released list before advancing and flushes the list to a barrier session only after the whole list was unlinked. " +
			"NOT decided: equality of counts/bytes with a walk, termination of the workers, schedules.",
		Assumptions: []string{"NewSnapshot is not called concurrently with writers (documented API contract)"},
		Run: func(c *Ctx) {
			c.Do("C06.a", "L1+L3 garbage-list integrity", 10, func() { clGarbageListOwners(c); clDeleteNodeWinner(c) })
			c.Do("C06.b", "L2 stitch completeness", 8, func() { clStitch(c); clStitchTable(c) })
			c.Do("C06.c", "L1+L2 release protocol", 12, func() { clSnapshotClose(c); clGCTryLock(c); clCollectorGuard(c); clPlainComparatorTables(c); clBackupOwnsSnapshot(c) })
			c.Do("C06.d", "L2 worker unlinks every listed node", 4, func() {
				clCollectionWorker(c, "C06.d")
				clRestoreItemSize(c)
				clAccounting(c)
				clLinkCASWhoMay(c)
				clStatsExhaustive(c)
				clComparatorRoles(c, map[string]bool{"field:store": true})
			})
		},
	})
}

package main

import "golang.org/x/tools/go/ssa"

func init() {
	register(&PropCheck{
		ID: "C12",
		Explanation: "Decides, on every path of the backup call graph, the error discipline without which StoreToDisk reports success for a partial backup: " +
			"(a/d) no error of an open/write/flush/close/manifest-write call in StoreToDisk, its closures, the file writer, the visitor callback, the delta logger and the handshake is dropped, only tested, or parked in a loop variable that later iterations overwrite unseen; " +
			"(b) no deferred function overwrites the named error result unless it is nil at that moment; (c) each manifest is written only under success of what it describes (scan -> files.json -> checksums.json; handshake merged before the delta manifests); " +
			"(d) the GC workers' recorded write error is what the terminate handshake returns; (e) the crash half: a shard is complete only with its terminator, DecodeItem reports end-of-stream only for it and ReadItem returns the decoder's error (EOF at an item boundary) unchanged. " +
			"NOT decided: what a crash image contains (runtime), kernel/filesystem behaviour (no fsync is noted, the statement is about process death).",
		Assumptions: []string{"os/bufio/ioutil report failures through their error results"},
		Run: func(c *Ctx) {
			c.Do("C12.a", "L6a no dropped error on the backup path", 12, func() { clBackupErrors(c) })
			c.Do("C12.b", "L6b deferred functions keep the first error", 3, func() {
				clDeferKeepsError(c, []*ssa.Function{c.P.Func("nitro", "Nitro", "StoreToDisk")})
			})
			c.Do("C12.c", "L1 manifests only after success", 5, func() { clManifestsAfterSuccess(c); clMandatoryManifest(c) })
			c.Do("C12.d", "L6c write errors surface through the handshake", 3, func() { clHandshakeCarriesError(c) })
			c.Do("C12.e", "L1 a shard cut off by a crash is recognisable (terminator / EOF discipline, shared with C11.e)", 4, func() { clDecodeItemDiscipline(c); clTerminatorAlways(c) })
		},
	})
}

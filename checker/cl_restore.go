package main

import (
	"fmt"
	"go/token"
	"go/types"
	"strings"

	"golang.org/x/tools/go/ssa"
)

// restoreScope: functions that take part in a restore (module functions
// reachable from LoadFromDisk that touch the backup files).
func restoreScope(p *Prog) []*ssa.Function {
	load := p.Func("nitro", "Nitro", "LoadFromDisk")
	var out []*ssa.Function
	for _, f := range p.reachableFrom(load) {
		if f.Package().Pkg.Path() == modPath {
			out = append(out, f)
		}
	}
	return out
}

// C11.a
func clRestoreErrors(c *Ctx) {
	p := c.P
	n := clNoDroppedErrors(c, restoreScope(p), []tolerance{
		{"ReadFile", "checksums.json", "absent/unreadable checksum manifest means 'unchecked' by the format (older backups have none)"},
		{"FileReader).Close", "", "closing a file that was only read cannot lose data"},
		{"rawFileReader).Close", "", "closing a file that was only read cannot lose data"},
		{"(*os.File).Close", "", "closing a file that was only read cannot lose data"},
		{"os.Stat", "", "existence test of the delta directory: its outcome decides whether the manifest read error is returned"},
	}, func(name string) bool {
		// calls that belong to the write path or to logging are not part of this rule
		return !strings.Contains(name, "Fprint") && !strings.Contains(name, "Printf") && !strings.Contains(name, "WriteItem") &&
			!strings.Contains(name, "EncodeItem") && !strings.Contains(name, "Flush") && !strings.Contains(name, "FileWriter")
	}, "a damaged, truncated or missing backup file is silently accepted: LoadFromDisk returns success with a different item set")
	if n < 10 {
		undecidedf("restore path: only %d error-returning calls found", n)
	}
	clMandatoryManifest(c)
	clManifestUse(c)
}

// Manifest reads of the restore: a checksum manifest that could be read is
// always decoded (nothing else decides whether shards are verified), and a
// missing delta file list is tolerated only after os.Stat showed that there is
// no delta directory at all.
func clManifestUse(c *Ctx) {
	p := c.P
	fn := p.Func("nitro", "Nitro", "LoadFromDisk")
	fi := p.Info(fn)
	type rd struct {
		in  ssa.Instruction
		lbl string
	}
	var reads []rd
	for _, in := range fi.Instrs {
		cc := callOf(in)
		if cc == nil || cc.StaticCallee() == nil {
			continue
		}
		if n := cc.StaticCallee().String(); n == "io/ioutil.ReadFile" || n == "os.ReadFile" {
			reads = append(reads, rd{in, pathLabel(cc.Args[0])})
		}
	}
	edgeHas := func(pb, sb *ssa.BasicBlock, ev ssa.Value, op token.Token) bool {
		for f := range fi.EdgeFactSet(pb, sb) {
			cmp, ok := cmpOf(f.V, f.Val)
			if !ok || cmp.Op != op {
				continue
			}
			x := cmp.X
			if isNilConst(x) {
				x = cmp.Y
			} else if !isNilConst(cmp.Y) {
				continue
			}
			if fi.resolveCell(x) == ev || x == ev {
				return true
			}
		}
		return false
	}
	isUnmarshalOf := func(bytes ssa.Value) func(ssa.Instruction) bool {
		return func(x ssa.Instruction) bool {
			cc := callOf(x)
			if cc == nil || cc.StaticCallee() == nil || cc.StaticCallee().String() != "encoding/json.Unmarshal" {
				return false
			}
			return fi.resolveCell(cc.Args[0]) == bytes || strip(cc.Args[0]) == bytes
		}
	}
	n := 0
	for i, r := range reads {
		ev, _ := errResult(r.in)
		if ev == nil {
			continue
		}
		var bytesV ssa.Value
		for _, ref := range referrersOf(r.in.(ssa.Value)) {
			if e, ok := ref.(*ssa.Extract); ok && e.Index == 0 {
				bytesV = e
			}
		}
		// the next manifest read (or the end of the function) bounds the region this read governs
		var next ssa.Instruction
		if i+1 < len(reads) {
			next = reads[i+1].in
		}
		target := func(x ssa.Instruction) bool {
			if next != nil {
				return x == next
			}
			r, ok := x.(*ssa.Return)
			return ok && r.Block() != fn.Recover && !isNilConst(fi.RetVal(r, 0))
		}
		if strings.HasSuffix(r.lbl, "checksums.json") && bytesV != nil {
			n++
			skip := fi.PathAvoidingEdges(r.in, target, isUnmarshalOf(bytesV), func(pb, sb *ssa.BasicBlock) bool { return edgeHas(pb, sb, ev, token.NEQ) })
			c.Check(skip == nil, fn, r.in, "a checksum manifest that was read is always decoded",
				"some condition besides the read error decides whether "+r.lbl+" is used (e.g. the format version, itself read from an unprotected file): altering that input switches shard verification off and a damaged backup is restored silently")
		}
		if strings.HasSuffix(r.lbl, "files.json") && strings.Contains(r.lbl, "delta") {
			n++
			skip := fi.PathAvoidingEdges(r.in, target, func(x ssa.Instruction) bool {
				cc := callOf(x)
				return cc != nil && cc.StaticCallee() != nil && (cc.StaticCallee().String() == "os.Stat" || cc.StaticCallee().String() == "os.Lstat")
			}, func(pb, sb *ssa.BasicBlock) bool { return edgeHas(pb, sb, ev, token.EQL) })
			c.Check(skip == nil, fn, r.in, "a delta file list that cannot be read is tolerated only after the delta directory was examined",
				"a missing delta/files.json is accepted although the delta directory exists: the delta shards are skipped and the items that only they contain are silently missing from the restored snapshot")
		}
	}
	if n < 3 {
		undecidedf("LoadFromDisk: only %d manifest reads of the expected kinds found", n)
	}
}

// data/files.json is the one manifest every backup has: no path continues
// into the restore unless reading it succeeded.
func clMandatoryManifest(c *Ctx) {
	p := c.P
	fn := p.Func("nitro", "Nitro", "LoadFromDisk")
	fi := p.Info(fn)
	nb := p.Func("skiplist", "", "NewBuilderWithConfig")
	var read ssa.Instruction
	for _, in := range fi.Instrs {
		cc := callOf(in)
		if cc == nil || cc.StaticCallee() == nil {
			continue
		}
		if n := cc.StaticCallee().String(); n != "io/ioutil.ReadFile" && n != "os.ReadFile" {
			continue
		}
		lbl := pathLabel(cc.Args[0])
		if strings.HasSuffix(lbl, "files.json") && strings.Contains(lbl, "data") {
			read = in
		}
	}
	if read == nil {
		undecidedf("LoadFromDisk: read of data/files.json not found")
	}
	ev, _ := errResult(read)
	for _, b := range p.CallSites(fn, nb) {
		ok := ev != nil && fi.Guarded(b, func(v ssa.Value, val bool) bool {
			cmp, isC := cmpOf(v, val)
			if !isC || cmp.Op != token.EQL {
				return false
			}
			x := cmp.X
			if isNilConst(x) {
				x = cmp.Y
			} else if !isNilConst(cmp.Y) {
				return false
			}
			return fi.resolveCell(x) == ev || x == ev
		})
		c.Check(ok, fn, read, "the restore proceeds only if data/files.json was read", "a backup directory without data/files.json (process died before the manifests were written) is restored as an empty snapshot with a nil error")
	}
}

// unmarshalTargets: local cells passed (by address) to json.Unmarshal in fn and
// its closures: cell -> the Unmarshal call.
func unmarshalTargets(p *Prog, fn *ssa.Function) map[*ssa.Alloc][]ssa.Instruction {
	out := map[*ssa.Alloc][]ssa.Instruction{}
	for _, in := range p.Info(fn).Instrs {
		cc := callOf(in)
		if cc == nil || cc.StaticCallee() == nil || cc.StaticCallee().String() != "encoding/json.Unmarshal" {
			continue
		}
		if al, ok := strip(cc.Args[1]).(*ssa.Alloc); ok {
			out[al] = append(out[al], in)
		}
	}
	return out
}

func isLenOf(v ssa.Value, cell *ssa.Alloc) bool {
	call, ok := strip(v).(*ssa.Call)
	if !ok || !isBuiltin(call, "len") {
		return false
	}
	return cellOf(call.Call.Args[0]) == cell
}

// C11.b: a slice whose length comes from file content is length-checked
// against the slice it is indexed in step with.
func clExternalLengths(c *Ctx) {
	p := c.P
	fn := p.Func("nitro", "Nitro", "LoadFromDisk")
	fi := p.Info(fn)
	targets := unmarshalTargets(p, fn)
	cnt := counter{}
	found := 0
	for cell, calls := range targets {
		if _, isSlice := cell.Type().Underlying().(*types.Pointer).Elem().Underlying().(*types.Slice); !isSlice {
			continue
		}
		// index sites on this cell, in fn
		for _, in := range fi.Instrs {
			var x, idx ssa.Value
			switch ia := in.(type) {
			case *ssa.IndexAddr:
				x, idx = ia.X, ia.Index
			case *ssa.Index:
				x, idx = ia.X, ia.Index
			default:
				continue
			}
			if cellOf(x) != cell {
				continue
			}
			_ = idx
			// indexing by a range over the slice itself is safe
			if rangesOver(idx, cell) {
				continue
			}
			found++
			for _, um := range calls {
				if !fi.Reaches(um, in) {
					continue
				}
				// every path from the decode to the indexing passes a length test
				var test *ssa.If
				leak := fi.PathAvoiding(um, func(i ssa.Instruction) bool { return i == in }, func(i ssa.Instruction) bool {
					ifi, ok := i.(*ssa.If)
					if !ok {
						return false
					}
					cmp, ok := cmpOf(ifi.Cond, true)
					if !ok {
						return false
					}
					if isLenOf(cmp.X, cell) || isLenOf(cmp.Y, cell) {
						test = ifi
						return true
					}
					return false
				})
				construct := cnt.in(fn, "index of "+cell.Comment+" decoded from a manifest")
				if !c.Check(leak == nil && test != nil, fn, in, construct,
					"a slice whose length is dictated by a (possibly damaged) manifest file is indexed by the index of another slice without a length test: a short manifest makes LoadFromDisk panic with index out of range") {
					continue
				}
				// the mismatch edge must not reach the indexing
				cmp, _ := cmpOf(test.Cond, true)
				var bad *ssa.BasicBlock
				switch cmp.Op {
				case token.NEQ, token.LSS, token.GTR:
					bad = test.Block().Succs[0]
				case token.EQL, token.GEQ, token.LEQ:
					bad = test.Block().Succs[1]
				}
				okEdge := bad != nil && fi.PathFromBlock(bad, func(i ssa.Instruction) bool { return i == in }, nil) == nil
				c.Check(okEdge, fn, test, cnt.in(fn, "length mismatch of "+cell.Comment+" rejects the backup"), "the length test does not stop a mismatching manifest from being indexed")
			}
		}
	}
	// the slice handed to a shared helper that indexes its parameter in step with another slice
	for cell, calls := range targets {
		if _, isSlice := cell.Type().Underlying().(*types.Pointer).Elem().Underlying().(*types.Slice); !isSlice {
			continue
		}
		for _, in := range fi.Instrs {
			cc := callOf(in)
			if cc == nil || cc.StaticCallee() == nil || cc.IsInvoke() || p.helperCall(in) != nil {
				continue
			}
			h := cc.StaticCallee()
			if h.Blocks == nil || h.Package() == nil || h.Package().Pkg.Path() != modPath || len(h.Params) != len(cc.Args) {
				continue
			}
			for i, a := range cc.Args {
				if cellOf(a) != cell {
					continue
				}
				// does the helper index that parameter by something else than a range over it?
				indexes := false
				for _, hin := range p.Info(h).Instrs {
					switch ia := hin.(type) {
					case *ssa.IndexAddr:
						if ia.X == ssa.Value(h.Params[i]) {
							indexes = true
						}
					case *ssa.Index:
						if ia.X == ssa.Value(h.Params[i]) {
							indexes = true
						}
					}
				}
				if !indexes {
					continue
				}
				found++
				for _, um := range calls {
					if !fi.Reaches(um, in) {
						continue
					}
					var test *ssa.If
					leak := fi.PathAvoiding(um, func(x ssa.Instruction) bool { return x == in }, func(x ssa.Instruction) bool {
						ifi, ok := x.(*ssa.If)
						if !ok {
							return false
						}
						cmp, ok := cmpOf(ifi.Cond, true)
						if ok && (isLenOf(cmp.X, cell) || isLenOf(cmp.Y, cell)) {
							test = ifi
							return true
						}
						return false
					})
					c.Check(leak == nil && test != nil, fn, in, cnt.in(fn, "manifest slice "+cell.Comment+" is length-checked before a helper indexes it"),
						"a slice whose length is dictated by a (possibly damaged) manifest file is handed to a helper that indexes it in step with another slice, without a length test")
				}
			}
		}
	}
	if found < 2 {
		undecidedf("LoadFromDisk: expected the checksum slices to be indexed, found %d sites", found)
	}
}

// rangesOver: idx is the induction variable of a loop bounded by len(*cell)
// (both the explicit `for i := 0; i < len(s); i++` and go/ssa's lowering of
// `for i := range s`, where the incremented value is compared and used).
func rangesOver(idx ssa.Value, cell *ssa.Alloc) bool {
	idx = strip(idx)
	cands := []ssa.Value{idx}
	if ph, ok := idx.(*ssa.Phi); ok {
		for _, r := range referrersOf(ph) {
			if add, ok := r.(*ssa.BinOp); ok && add.Op == token.ADD {
				cands = append(cands, add)
			}
		}
	}
	for _, cv := range cands {
		for _, r := range referrersOf(cv) {
			if b, ok := r.(*ssa.BinOp); ok && b.Op == token.LSS && b.X == cv && isLenOf(b.Y, cell) {
				return true
			}
		}
	}
	return false
}

// chanCellsUnbuffered: local channel variables made without capacity.
func unbufferedChans(p *Prog, fn *ssa.Function) []*ssa.MakeChan {
	var out []*ssa.MakeChan
	for _, in := range p.Info(fn).Instrs {
		if mc, ok := in.(*ssa.MakeChan); ok {
			if n, isC := constInt(mc.Size); isC && n == 0 {
				out = append(out, mc)
			}
		}
	}
	return out
}

// chanOrigin: resolves a channel operand inside a closure back to the
// MakeChan in the parent (through the capture cell).
func chanOrigin(v ssa.Value) *ssa.MakeChan {
	v = strip(v)
	if mc, ok := v.(*ssa.MakeChan); ok {
		return mc
	}
	u, ok := v.(*ssa.UnOp)
	if !ok || u.Op != token.MUL {
		return nil
	}
	var cell *ssa.Alloc
	switch a := u.X.(type) {
	case *ssa.Alloc:
		cell = a
	case *ssa.FreeVar:
		cell, _ = closureBinding(a.Parent(), a).(*ssa.Alloc)
	}
	if cell == nil {
		return nil
	}
	var mc *ssa.MakeChan
	for _, r := range referrersOf(cell) {
		if st, ok := r.(*ssa.Store); ok && st.Addr == ssa.Value(cell) {
			m, ok := strip(st.Val).(*ssa.MakeChan)
			if !ok || mc != nil {
				return nil
			}
			mc = m
		}
	}
	return mc
}

// C11.c (L10): a consumer goroutine ranging over an unbuffered channel whose
// producer sends unconditionally must not leave the loop early.
func clNoWorkerWedge(c *Ctx, fn *ssa.Function) {
	p := c.P
	chans := unbufferedChans(p, fn)
	cnt := counter{}
	found := 0
	for _, mc := range chans {
		// producer side: sends in fn itself
		hasSend := false
		for _, in := range p.Info(fn).Instrs {
			if s, ok := in.(*ssa.Send); ok && chanOrigin(s.Chan) == mc {
				hasSend = true
			}
		}
		if !hasSend {
			continue
		}
		for cl := range goClosures(fn) {
			cfi := p.Info(cl)
			for _, in := range cfi.Instrs {
				rcv, ok := in.(*ssa.UnOp)
				if !ok || rcv.Op != token.ARROW || chanOrigin(rcv.X) != mc {
					continue
				}
				found++
				// the block entered when a value was received
				var body *ssa.BasicBlock
				if rcv.CommaOk {
					for _, r := range referrersOf(rcv) {
						if e, ok := r.(*ssa.Extract); ok && e.Index == 1 {
							for _, rr := range referrersOf(e) {
								if ifi, ok := rr.(*ssa.If); ok {
									body = ifi.Block().Succs[0]
								}
							}
						}
					}
				}
				if body == nil {
					c.Undecided(cl, in, "worker receive loop", "receive is not a range-over-channel loop")
					continue
				}
				early := cfi.PathFromBlock(body, isReturn, func(x ssa.Instruction) bool { return x == ssa.Instruction(rcv) })
				c.Check(early == nil, cl, in, cnt.in(cl, "worker drains its unbuffered work channel"),
					fmt.Sprintf("the worker returns from inside its receive loop (at %s) while the producer keeps sending on an unbuffered channel: with as many failing shards as workers nobody receives any more and the producer blocks for ever", p.posOf(early)))
			}
		}
	}
	if found == 0 {
		undecidedf("%s: no worker loop over an unbuffered channel found", fname(fn))
	}
}

// C11.d: checksum comparison and error scan precede acceptance.
func clVerificationPrecedesAcceptance(c *Ctx) {
	p := c.P
	fn := p.Func("nitro", "Nitro", "LoadFromDisk")
	fi := p.Info(fn)
	fStore := p.Field("nitro", "Nitro", "store")
	newSnap := p.Func("nitro", "Nitro", "NewSnapshot")
	wgWait := p.StdFunc("sync", "WaitGroup", "Wait")
	targets := unmarshalTargets(p, fn)

	// checksum comparisons: invoke Checksum on a FileReader compared with an element of a manifest slice
	type vsite struct {
		in   ssa.Instruction
		head *ssa.BasicBlock
		what string
	}
	var sites []vsite
	cnt := counter{}
	// verification performed by a shared helper (e.g. verifyReaderChecksums(manifest, readers)): the
	// helper's own loop is evaluated, and each of its call sites in LoadFromDisk counts as a verification site
	type vjob struct {
		fn   *ssa.Function
		in   ssa.Instruction
		site ssa.Instruction // where it happens in LoadFromDisk (== in for inline code)
	}
	var jobs []vjob
	for _, in := range fi.Instrs {
		cc := callOf(in)
		if cc == nil {
			continue
		}
		if cc.IsInvoke() && cc.Method.Name() == "Checksum" {
			jobs = append(jobs, vjob{fn, in, in})
			continue
		}
		if h := cc.StaticCallee(); h != nil && !cc.IsInvoke() && h.Blocks != nil && h.Package() != nil && h.Package().Pkg.Path() == modPath && h != fn && p.helperCall(in) == nil && h.Parent() == nil {
			for _, hin := range p.Info(h).Instrs {
				if hc := callOf(hin); hc != nil && hc.IsInvoke() && hc.Method.Name() == "Checksum" {
					jobs = append(jobs, vjob{h, hin, in})
				}
			}
		}
	}
	for _, job := range jobs {
		in := job.in
		fn := job.fn
		fi := p.Info(fn)
		call := in.(*ssa.Call)
		head := loopHeaderOf(in.Block())
		construct := cnt.in(fn, "shard checksum verified against its manifest entry")
		if head == nil {
			c.Check(false, fn, in, construct, "the reader checksum is not examined in a loop over the shards")
			continue
		}
		// the loop body entry: the successor of the header from which the
		// checksum call is reachable without passing the header again
		var bodyEntry *ssa.BasicBlock
		for _, sc := range head.Succs {
			if sc == in.Block() || fi.PathFromBlock(sc, func(x ssa.Instruction) bool { return x == in }, func(x ssa.Instruction) bool { return x.Block() == head }) != nil {
				bodyEntry = sc
			}
		}
		if bodyEntry == nil {
			c.Undecided(fn, in, construct, "loop body of the verification loop not found")
			continue
		}
		// decision table of the acceptance test: reject <=> stored != 0 && stored != computed
		var stored, computed int64
		usedStored := false
		it := &interp{p: p}
		it.load = func(chain []*types.Var, root ssa.Value, env map[ssa.Value]ival) (ival, bool) {
			if ia, ok := root.(*ssa.IndexAddr); ok && len(chain) == 0 {
				if cell := cellOf(ia.X); cell != nil {
					if _, isT := targets[cell]; isT {
						usedStored = true
						return ival{kind: 'i', i: stored}, true
					}
				}
				// inside a shared helper the manifest arrives as a []uint32 parameter
				if prm, isP := ia.X.(*ssa.Parameter); isP && job.fn != job.site.Parent() {
					if sl, ok := prm.Type().Underlying().(*types.Slice); ok {
						if b, ok := sl.Elem().Underlying().(*types.Basic); ok && b.Kind() == types.Uint32 {
							usedStored = true
							return ival{kind: 'i', i: stored}, true
						}
					}
				}
			}
			if len(chain) == 0 {
				if _, isG := root.(*ssa.Global); isG {
					return ival{kind: 'p', h: root}, true
				}
				return ival{kind: 'p', h: root}, true
			}
			return ival{}, false
		}
		it.call = func(ci *ssa.Call, args []ival, env map[ssa.Value]ival) (ival, bool) {
			if ci == call {
				return ival{kind: 'i', i: computed}, true
			}
			return ival{}, false
		}
		first := true
		it.stop = func(x ssa.Instruction) (string, bool) {
			if x.Block() == head && !first {
				return "accept", true
			}
			first = false
			if _, isS := x.(*ssa.Store); isS {
				return "", false
			}
			if _, isD := x.(*ssa.RunDefers); isD {
				return "reject", true
			}
			if r, isR := x.(*ssa.Return); isR && job.fn != job.site.Parent() {
				// in a helper: returning a non-nil error rejects, returning nil accepts
				if len(r.Results) == 1 && isNilConst(r.Results[0]) {
					return "accept", true
				}
				return "reject", true
			}
			return "", false
		}
		it.ignoreStore = func(st *ssa.Store) bool { return true }
		var bad []string
		var msg string
		pts := 0
		for stored = 0; stored <= 2 && msg == ""; stored++ {
			for computed = 0; computed <= 2; computed++ {
				var r runResult
				first = true
				it.steps = 0
				msg = tryInterp(func() { r = it.Run(fn, bodyEntry, 0, map[ssa.Value]ival{}) })
				if msg != "" {
					break
				}
				pts++
				rejected := r.outcome == "reject" || r.outcome == "return"
				want := stored != 0 && stored != computed
				if rejected != want {
					bad = append(bad, fmt.Sprintf("manifest=%d recomputed=%d: rejected=%v, reference=%v", stored, computed, rejected, want))
				}
			}
		}
		if msg != "" {
			c.Undecided(fn, in, construct, "acceptance test is outside the comparison-only fragment: "+msg)
			continue
		}
		det := ""
		if len(bad) > 0 {
			det = fmt.Sprintf("%d of %d points differ from reject <=> manifest != 0 && manifest != recomputed; first: %s: a damaged shard whose checksum differs is accepted (or an intact one refused)", len(bad), pts, bad[0])
		}
		c.Check(len(bad) == 0 && usedStored, fn, in, construct, det+map[bool]string{true: "", false: " the checksum is not compared with the value recorded in the manifest"}[usedStored])
		if job.site == job.in {
			sites = append(sites, vsite{in, head, "checksum verification"})
		} else {
			// the helper's verdict must reach LoadFromDisk's result
			lfi := p.Info(job.site.Parent())
			ev, _ := errResult(job.site)
			c.Check(ev != nil && len(p.errSinks(ev)) > 0, job.site.Parent(), job.site, cnt.in(job.site.Parent(), "verdict of the checksum verification helper is returned"), "the result of the verification helper is dropped")
			_ = lfi
			sites = append(sites, vsite{job.site, job.site.Block(), "checksum verification"})
		}
	}
	fi = p.Info(fn)
	// error scans: element of a local []error compared with nil and returned
	for _, in := range fi.Instrs {
		ret, ok := in.(*ssa.Return)
		if !ok || ret.Block() == fn.Recover || len(ret.Results) != 2 {
			continue
		}
		ev := fi.RetVal(ret, 1)
		// value loaded from an element of an []error (range value)
		ld, ok := strip(ev).(*ssa.UnOp)
		if !ok || ld.Op != token.MUL {
			continue
		}
		ia, ok := ld.X.(*ssa.IndexAddr)
		if !ok {
			continue
		}
		if !types.Identical(ia.X.Type().Underlying().(*types.Slice).Elem(), errorType) {
			continue
		}
		if h := loopHeaderOf(ld.Block()); h != nil {
			c.Check(fi.guardedByCmp(ret, token.NEQ, isValue(ld), isNilConst), fn, ret, cnt.in(fn, "recorded shard error is returned"), "")
			sites = append(sites, vsite{ld, h, "scan of the per-shard errors"})
		}
	}
	if len(sites) < 2 {
		c.Check(false, fn, nil, "checksum verification and error scan exist", "LoadFromDisk no longer verifies shard checksums and/or no longer returns recorded per-shard read errors")
		return
	}
	// acceptance points: store to Nitro.store, call of NewSnapshot
	var accepts []ssa.Instruction
	for _, st := range p.storesTo(fn, fStore) {
		accepts = append(accepts, st)
	}
	accepts = append(accepts, p.CallSites(fn, newSnap)...)
	waits := p.CallSites(fn, wgWait)
	if len(waits) == 0 || len(accepts) == 0 {
		undecidedf("LoadFromDisk: wg.Wait or acceptance point not found")
	}
	// every wait must be followed, before any acceptance point, by at least one
	// checksum verification loop and one error scan loop
	for _, w := range waits {
		for _, kind := range []string{"checksum verification", "scan of the per-shard errors"} {
			var heads []*ssa.BasicBlock
			for _, s := range sites {
				if s.what == kind && s.head != nil && fi.Reaches(w, s.in) {
					heads = append(heads, s.head)
				}
			}
			skip := fi.PathAvoiding(w, func(x ssa.Instruction) bool {
				for _, a := range accepts {
					if a == x {
						return true
					}
				}
				return false
			}, func(x ssa.Instruction) bool {
				for _, h := range heads {
					if x.Block() == h {
						return true
					}
				}
				// another wait starts a new phase
				return x != w && p.IsCall(x, wgWait)
			})
			c.Check(skip == nil && len(heads) > 0, fn, w, cnt.in(fn, kind+" between the loaders' completion and acceptance"),
				"after the loader goroutines finish, the result is accepted (installed as the store / returned as snapshot) on a path that skips the "+kind)
		}
	}
}

// C11.e DecodeItem: terminator / EOF discipline.
func clDecodeItemDiscipline(c *Ctx) {
	p := c.P
	fn := p.Func("nitro", "Nitro", "DecodeItem")
	fi := p.Info(fn)
	allocItem := p.Func("nitro", "Nitro", "allocItem")
	bytesFn := p.Func("nitro", "Item", "Bytes")
	var reads []*ssa.Call
	for _, in := range fi.Instrs {
		if call, ok := in.(*ssa.Call); ok {
			if f := call.Call.StaticCallee(); f != nil && (f.String() == "io.ReadFull" || f.String() == "io.ReadAtLeast") {
				reads = append(reads, call)
			}
		}
	}
	cnt := counter{}
	// every use of the stream is a FULL read: a plain Read may return fewer
	// bytes without an error (buffer boundaries), which desynchronises framing
	var checkStream func(rd ssa.Value, depth int)
	checkStream = func(rd ssa.Value, depth int) {
		for _, r := range referrersOf(rd) {
			in, ok := r.(ssa.Instruction)
			if !ok {
				continue
			}
			if _, isDbg := in.(*ssa.DebugRef); isDbg {
				continue
			}
			if prm := p.paramOfHelper(in, rd); prm != nil && depth < 3 {
				checkStream(prm, depth+1) // handed to a private helper: its uses count
				continue
			}
			full := false
			if call, isCall := in.(*ssa.Call); isCall {
				if f := call.Call.StaticCallee(); f != nil && (f.String() == "io.ReadFull" || f.String() == "io.ReadAtLeast") && call.Call.Args[0] == rd {
					full = true
				}
			}
			c.Check(full, fn, in, cnt.in(fn, "stream is consumed only through io.ReadFull"),
				"the length prefix or payload is read with a call that may return fewer bytes than requested without an error: a frame straddling a buffer boundary is misread and the rest of the shard is garbage")
		}
	}
	checkStream(fn.Params[3], 0)
	if len(reads) < 2 {
		c.Check(false, fn, nil, "header and payload are read with io.ReadFull", "fewer than two full reads found")
		return
	}
	for _, ret := range fi.Returns() {
		if len(ret.Results) != 3 {
			undecidedf("DecodeItem: unexpected result arity")
		}
		errv := fi.RetVal(ret, 2)
		itmv := fi.RetVal(ret, 0)
		if isNilConst(errv) {
			if isNilConst(itmv) {
				// end-of-stream: only on a non-positive length
				eos := fi.Guarded(ret, func(v ssa.Value, val bool) bool {
					cmp, ok := cmpOf(v, val)
					if !ok {
						return false
					}
					return cmp.match(token.LEQ, anyValue, isConstInt(0)) || cmp.match(token.EQL, anyValue, isConstInt(0)) || cmp.match(token.LSS, anyValue, isConstInt(1))
				})
				c.Check(eos, fn, ret, cnt.in(fn, "end of stream only on a zero length prefix"), "DecodeItem reports end-of-stream for something else than the zero-length terminator")
			}
		}
	}
	// a failed read never leads to a nil error
	for _, rd := range reads {
		ev, _ := errResult(rd)
		if ev == nil {
			c.Check(false, fn, rd, cnt.in(fn, "read error is examined"), "the error of a read is discarded: a truncated file is not noticed")
			continue
		}
		var tests []*ssa.If
		for _, r := range referrersOf(ev) {
			if b, ok := r.(*ssa.BinOp); ok && (b.Op == token.NEQ || b.Op == token.EQL) && (isNilConst(b.X) || isNilConst(b.Y)) {
				for _, rr := range referrersOf(b) {
					if ifi, ok := rr.(*ssa.If); ok {
						tests = append(tests, ifi)
					}
				}
			}
		}
		ok := true
		isTest := func(x ssa.Instruction) bool {
			for _, t := range tests {
				if x == ssa.Instruction(t) {
					return true
				}
			}
			return false
		}
		nilErrReturn := func(x ssa.Instruction) bool {
			r, isR := x.(*ssa.Return)
			if !isR || r.Block() == fn.Recover || len(r.Results) != 3 {
				return false
			}
			return isNilConst(fi.RetVal(r, 2))
		}
		// untested continuation must hand the error itself to the caller
		if bad := fi.PathAvoiding(rd, func(x ssa.Instruction) bool {
			r, isR := x.(*ssa.Return)
			return isR && r.Block() != fn.Recover && fi.RetVal(r, 2) != ev
		}, isTest); bad != nil {
			ok = false
		}
		for _, t := range tests {
			cmp, _ := cmpOf(t.Cond, true)
			fail := t.Block().Succs[0]
			if cmp.Op == token.EQL {
				fail = t.Block().Succs[1]
			}
			if fi.PathFromBlock(fail, nilErrReturn, nil) != nil {
				ok = false
			}
		}
		c.Check(ok, fn, rd, cnt.in(fn, "a failed read never yields a nil error"), "a short or failed read (file truncated anywhere before its terminator) is reported as success or as end of stream: the restore silently returns fewer items")
	}
	// payload read fills exactly the decoded length
	for _, rd := range reads {
		buf := strip(rd.Call.Args[1])
		bc, ok := buf.(*ssa.Call)
		if !ok || !p.CallsAny(bc, bytesFn) {
			continue
		}
		itm, ok := strip(bc.Call.Args[0]).(*ssa.Call)
		okAlloc := ok && p.CallsAny(itm, allocItem)
		c.Check(okAlloc, fn, rd, "payload is read into a freshly allocated item", "")
		if okAlloc {
			// allocItem(l, ...) where l derives from the prefix decode
			l := strip(itm.Call.Args[1])
			fromPrefix := false
			seen := map[ssa.Value]bool{}
			var walk func(v ssa.Value)
			walk = func(v ssa.Value) {
				v = strip(v)
				if seen[v] {
					return
				}
				seen[v] = true
				if srcs := p.retSources(v); srcs != nil {
					for _, e := range srcs {
						walk(e)
					}
					return
				}
				switch x := v.(type) {
				case *ssa.Phi:
					for _, e := range x.Edges {
						walk(e)
					}
				case *ssa.Call:
					if f := x.Call.StaticCallee(); f != nil && strings.HasPrefix(f.Name(), "Uint") {
						fromPrefix = true
					}
				}
			}
			walk(l)
			c.Check(fromPrefix, fn, rd, "payload length = decoded length prefix", "the number of payload bytes read is not the length announced by the prefix")
			// the error of the payload read reaches the caller
			ev, _ := errResult(rd)
			c.Check(ev != nil && len(p.errSinks(ev)) > 0, fn, rd, "payload read error is returned", "a payload cut short by truncation is returned as a complete item")
		}
	}
}

// ---------------------------------------------------------------------------
// C11.b (second half): slices shared between LoadFromDisk and its loader
// goroutines are indexed by an index of their own size class, and slots that
// the verification dereferences are filled before the loaders start.
// ---------------------------------------------------------------------------

// sizeClassOfLen classifies a length expression: "len:<var>" or "param:<name>".
func sizeClassOfLen(v ssa.Value) string {
	v = strip(v)
	if call, ok := v.(*ssa.Call); ok && isBuiltin(call, "len") {
		if al := cellOf(call.Call.Args[0]); al != nil {
			return "len:" + al.Comment
		}
		if u, ok := call.Call.Args[0].(*ssa.UnOp); ok {
			if fv, ok := u.X.(*ssa.FreeVar); ok {
				return "len:" + fv.Name()
			}
		}
	}
	if prm, ok := v.(*ssa.Parameter); ok {
		return "param:" + prm.Name()
	}
	if u, ok := v.(*ssa.UnOp); ok && u.Op == token.MUL {
		if al, ok := u.X.(*ssa.Alloc); ok {
			return "param:" + al.Comment
		}
		if fv, ok := u.X.(*ssa.FreeVar); ok {
			return "param:" + fv.Name()
		}
	}
	return "?"
}

// loopBoundClass: v is a loop induction value; returns the class of its bound.
func loopBoundClass(v ssa.Value) string {
	v = strip(v)
	cands := []ssa.Value{v}
	if ph, ok := v.(*ssa.Phi); ok {
		for _, r := range referrersOf(ph) {
			if add, ok := r.(*ssa.BinOp); ok && add.Op == token.ADD {
				cands = append(cands, add)
			}
		}
	}
	if b, ok := v.(*ssa.BinOp); ok && b.Op == token.ADD {
		if ph, ok := b.X.(*ssa.Phi); ok {
			cands = append(cands, ph)
		}
	}
	for _, cv := range cands {
		for _, r := range referrersOf(cv) {
			if b, ok := r.(*ssa.BinOp); ok && b.Op == token.LSS && b.X == cv {
				if cl := sizeClassOfLen(b.Y); cl != "?" {
					return cl
				}
			}
		}
	}
	return "?"
}

func clLoaderSliceDiscipline(c *Ctx) {
	p := c.P
	fn := p.Func("nitro", "Nitro", "LoadFromDisk")
	fi := p.Info(fn)
	cnt := counter{}
	// size class of every local slice cell
	sizeOf := map[*ssa.Alloc]string{}
	for _, in := range fi.Instrs {
		st, ok := in.(*ssa.Store)
		if !ok {
			continue
		}
		al, ok := st.Addr.(*ssa.Alloc)
		if !ok {
			continue
		}
		switch ms := strip(st.Val).(type) {
		case *ssa.MakeSlice:
			sizeOf[al] = sizeClassOfLen(ms.Len)
		}
	}
	// class of what travels over each channel
	chanClass := map[*ssa.MakeChan]string{}
	for _, in := range fi.Instrs {
		if s, ok := in.(*ssa.Send); ok {
			if mc := chanOrigin(s.Chan); mc != nil {
				chanClass[mc] = loopBoundClass(s.X)
			}
		}
	}
	n := 0
	for cl, g := range goClosures(fn) {
		cfi := p.Info(cl)
		for _, in := range cfi.Instrs {
			ia, ok := in.(*ssa.IndexAddr)
			if !ok {
				continue
			}
			u, ok := ia.X.(*ssa.UnOp)
			if !ok {
				continue
			}
			fv, ok := u.X.(*ssa.FreeVar)
			if !ok {
				continue
			}
			cell, ok := closureBinding(cl, fv).(*ssa.Alloc)
			if !ok {
				continue
			}
			sc, known := sizeOf[cell]
			if !known || sc == "?" {
				continue
			}
			// class of the index
			idx := strip(ia.Index)
			ic := "?"
			if e, ok := idx.(*ssa.Extract); ok {
				if rcv, ok := e.Tuple.(*ssa.UnOp); ok && rcv.Op == token.ARROW {
					if mc := chanOrigin(rcv.X); mc != nil {
						ic = chanClass[mc]
					}
				}
			} else if rcv, ok := idx.(*ssa.UnOp); ok && rcv.Op == token.ARROW {
				if mc := chanOrigin(rcv.X); mc != nil {
					ic = chanClass[mc]
				}
			} else if prm, ok := idx.(*ssa.Parameter); ok {
				for i, pp := range cl.Params {
					if pp == prm && i < len(g.Call.Args) {
						ic = loopBoundClass(g.Call.Args[i])
					}
				}
			}
			if ic == "?" || ic == "" {
				continue
			}
			n++
			c.Check(ic == sc, cl, in, cnt.in(cl, "shared slice "+cell.Comment+" is indexed by an index of its own size class"),
				fmt.Sprintf("slice %s has %s elements but is indexed by a value ranging over %s: with more loaders than files (or vice versa) a damaged shard makes the goroutine panic with index out of range, or its error lands in another shard's slot", cell.Comment, strings.TrimPrefix(sc, "len:"), strings.TrimPrefix(ic, "len:")))
		}
	}
	if n < 4 {
		undecidedf("LoadFromDisk loaders: only %d indexed shared slices classified", n)
	}
	// reader slots that the main goroutine dereferences are filled by the main goroutine
	for _, in := range fi.Instrs {
		al, ok := in.(*ssa.Alloc)
		if !ok {
			continue
		}
		sl, ok := al.Type().Underlying().(*types.Pointer).Elem().Underlying().(*types.Slice)
		if !ok {
			continue
		}
		if nm, ok := sl.Elem().(*types.Named); !ok || nm.Obj().Name() != "FileReader" {
			continue
		}
		filledByLoader := false
		for cl := range goClosures(fn) {
			for _, x := range p.Info(cl).Instrs {
				st, ok := x.(*ssa.Store)
				if !ok {
					continue
				}
				if ia, ok := st.Addr.(*ssa.IndexAddr); ok {
					if u, ok := ia.X.(*ssa.UnOp); ok {
						if fv, ok := u.X.(*ssa.FreeVar); ok && closureBinding(cl, fv) == ssa.Value(al) {
							filledByLoader = true
						}
					}
				}
			}
		}
		if !filledByLoader {
			c.Check(true, fn, al, cnt.in(fn, "reader slots of "+al.Comment+" are filled before the loaders start"), "")
			continue
		}
		// then every use in the main goroutine must be nil-guarded
		okAll := true
		for _, x := range fi.Instrs {
			cc := callOf(x)
			if cc == nil || !cc.IsInvoke() || x.Parent() != fn {
				continue
			}
			ld, ok := cc.Value.(*ssa.UnOp)
			if !ok {
				continue
			}
			ia, ok := ld.X.(*ssa.IndexAddr)
			if !ok || cellOf(ia.X) != al {
				continue
			}
			if !fi.guardedByCmp(x, token.NEQ, isValue(cc.Value), isNilConst) {
				okAll = false
			}
		}
		c.Check(okAll, fn, al, cnt.in(fn, "reader slots of "+al.Comment+" are filled before the loaders start"),
			"shard readers are opened by the loader goroutines and stay nil when the open fails, but the verification dereferences every slot: a missing shard file makes LoadFromDisk panic instead of returning an error")
	}
}

package main

import (
	"fmt"
	"go/types"

	"golang.org/x/tools/go/ssa"
)

// bytesOf marks the value (*Item).Bytes(param)
type bytesOf struct{ root ssa.Value }

// evalComparator interprets a CompareFn-shaped function with the user key
// comparator bound to k and field atoms bound by `atoms` (field -> [this,that]).
var foreignKeyCmp int

func evalComparator(p *Prog, fn *ssa.Function, k int64, atoms map[*types.Var][2]int64) (ret int64, keyOrderOK bool, keyCalls int, msg string) {
	bytesFn := p.FuncOpt("nitro", "Item", "Bytes")
	this, that := fn.Params[0], fn.Params[1]
	keyOrderOK = true
	it := &interp{p: p}
	it.load = func(chain []*types.Var, root ssa.Value, env map[ssa.Value]ival) (ival, bool) {
		if len(chain) == 0 {
			if _, ok := root.(*ssa.FreeVar); ok {
				return ival{kind: 'p', h: "keycmp"}, true
			}
			return ival{}, false
		}
		f := chain[len(chain)-1]
		vals, ok := atoms[f]
		if !ok || len(chain) != 1 {
			return ival{}, false
		}
		switch strip(root) {
		case ssa.Value(this):
			return ival{kind: 'i', i: vals[0]}, true
		case ssa.Value(that):
			return ival{kind: 'i', i: vals[1]}, true
		}
		return ival{}, false
	}
	it.call = func(in *ssa.Call, args []ival, env map[ssa.Value]ival) (ival, bool) {
		if bytesFn != nil && p.CallsAny(in, bytesFn) {
			return ival{kind: 'p', h: bytesOf{strip(in.Call.Args[0])}}, true
		}
		// a key comparison that does not go through the user-supplied comparator
		if callee := in.Call.StaticCallee(); callee != nil && len(args) == 2 {
			_, aok := args[0].h.(bytesOf)
			_, bok := args[1].h.(bytesOf)
			if aok && bok {
				foreignKeyCmp++
				return ival{kind: 'i', i: k}, true
			}
		}
		if in.Call.StaticCallee() == nil && !in.Call.IsInvoke() {
			// the user key comparator
			fv := it.val(in.Call.Value, env)
			if fv.h == "keycmp" && len(args) == 2 {
				keyCalls++
				a, aok := args[0].h.(bytesOf)
				b, bok := args[1].h.(bytesOf)
				if !aok || !bok || a.root != ssa.Value(this) || b.root != ssa.Value(that) {
					keyOrderOK = false
				}
				return ival{kind: 'i', i: k}, true
			}
		}
		return ival{}, false
	}
	var r runResult
	msg = tryInterp(func() { r = it.Run(fn, fn.Blocks[0], 0, map[ssa.Value]ival{}) })
	if msg == "" {
		if r.outcome != "return" || len(r.ret) != 1 || r.ret[0].kind != 'i' {
			msg = "comparator does not return an int"
		} else {
			ret = r.ret[0].i
		}
	}
	return
}

func closureOf(p *Prog, ctor string) *ssa.Function {
	f := p.Func("nitro", "", ctor)
	if len(f.AnonFuncs) != 1 {
		undecidedf("%s: expected exactly one closure, found %d", ctor, len(f.AnonFuncs))
	}
	// the constructor returns that closure built over its parameter
	ok := false
	for _, in := range p.Info(f).Instrs {
		if ret, isR := in.(*ssa.Return); isR && len(ret.Results) == 1 {
			if mc, isMC := strip(ret.Results[0]).(*ssa.MakeClosure); isMC && mc.Fn == f.AnonFuncs[0] {
				ok = true
			}
			// a function literal that captures nothing is a plain function value
			if fv, isF := strip(ret.Results[0]).(*ssa.Function); isF && fv == f.AnonFuncs[0] {
				ok = true
			}
		}
	}
	if !ok {
		undecidedf("%s does not return its closure", ctor)
	}
	return f.AnonFuncs[0]
}

// C02.a: decision tables of the three item comparators.
func clItemComparatorTables(c *Ctx) {
	p := c.P
	fBorn := p.Field("nitro", "Item", "bornSn")
	fDead := p.Field("nitro", "Item", "deadSn")
	ks := []int64{-7, -1, 0, 1, 3}
	borns := []int64{1, 2, 3, 4000000000}
	deads := []int64{0, 2, 5}
	// every other scalar field of the item header (dataLen, ...) is an atom
	// too: the reference tables do not depend on it
	var others []*types.Var
	if st, ok := p.Named("nitro", "Item").Underlying().(*types.Struct); ok {
		for i := 0; i < st.NumFields(); i++ {
			f := st.Field(i)
			if _, isB := f.Type().Underlying().(*types.Basic); isB && f != fBorn && f != fDead {
				others = append(others, f)
			}
		}
	}
	otherVals := [][2]int64{{3, 3}, {3, 9}, {9, 3}}
	type spec struct {
		ctor string
		ref  func(k, tb, hb, td, hd int64) (want int, zeroOnly bool)
		why  string
	}
	specs := []spec{
		{"newInsertCompare", func(k, tb, hb, td, hd int64) (int, bool) {
			if k != 0 {
				return sign(k), false
			}
			return sign(tb - hb), false
		}, "versions of one key are no longer ordered by (key, bornSn): a lookup seeking (key, currSn) does not land behind the newest version, a re-Put of a deleted key sorts before its dead version, and the snapshot filter returns wrong/duplicate versions"},
		{"newIterCompare", func(k, tb, hb, td, hd int64) (int, bool) { return sign(k), false },
			"the iterator order is not the pure key order: Seek(k) no longer lands on the oldest physical version of the first key >= k"},
		{"newExistCompare", func(k, tb, hb, td, hd int64) (int, bool) {
			if td != 0 || hd != 0 || k != 0 {
				return 1, true
			}
			return 0, true
		}, "the exists-test must answer 'equal' exactly when both versions are alive and the keys are equal: otherwise a Put is rejected because of a dead version, or accepted next to a live one (duplicate live key)"},
	}
	for _, s := range specs {
		fn := closureOf(p, s.ctor)
		foreignBefore := foreignKeyCmp
		bad := []string{}
		pts := 0
		orderBad := false
		var msg string
	outer:
		for _, k := range ks {
			for _, tb := range borns {
				for _, hb := range borns {
					for _, td := range deads {
						for _, hd := range deads {
							for _, ov := range otherVals {
								atoms := map[*types.Var][2]int64{fBorn: {tb, hb}, fDead: {td, hd}}
								for _, of := range others {
									atoms[of] = ov
								}
								ret, ordOK, _, m := evalComparator(p, fn, k, atoms)
								if m != "" {
									msg = m
									break outer
								}
								pts++
								if !ordOK {
									orderBad = true
								}
								want, zeroOnly := s.ref(k, tb, hb, td, hd)
								okv := sign(ret) == want
								if zeroOnly {
									okv = (ret == 0) == (want == 0)
								}
								if !okv {
									bad = append(bad, fmt.Sprintf("keyCmp=%d this(born=%d,dead=%d,len=%d) that(born=%d,dead=%d,len=%d): returns %d, reference sign %d", k, tb, td, ov[0], hb, hd, ov[1], ret, want))
								}
							}
						}
					}
				}
			}
		}
		if msg != "" {
			c.Undecided(fn, nil, s.ctor+" decision table", "comparator is outside the comparison-only fragment: "+msg)
			continue
		}
		det := ""
		if len(bad) > 0 {
			det = fmt.Sprintf("%d of %d points differ; first: %s; consequence: %s", len(bad), pts, bad[0], s.why)
		}
		c.Check(len(bad) == 0, fn, nil, s.ctor+" decision table", det)
		c.Check(!orderBad, fn, nil, s.ctor+" applies the key comparator to (this.Bytes(), that.Bytes())", "the user key comparator receives the operands in the wrong order or not the item bytes")
		c.Check(len(fn.FreeVars) >= 1, fn, nil, s.ctor+" is built over the key comparator it was given", "the comparator does not capture the configured key comparator")
		c.Check(foreignKeyCmp == foreignBefore, fn, nil, s.ctor+" consults the configured key comparator only", "keys are compared by a fixed function instead of the configured key comparator: with a custom comparator the store is ordered by one order and searched by another (Seek lands on wrong items, scans with refresh loop or drop items)")
	}
}

// Simple id/sequence comparators of the Go-heap lists.
func clPlainComparatorTables(c *Ctx) {
	p := c.P
	type spec struct {
		pkg, fn    string
		typ, field string
		why        string
	}
	specs := []spec{
		{"nitro", "CompareSnapshot", "Snapshot", "sn", "snapshots are not ordered by their number: the collector's first retired snapshot is not the oldest one"},
		{"skiplist", "CompareBS", "BarrierSession", "seqno", "terminated barrier sessions are not queued by close number: cleanup does not find the next session at the front"},
		{"nitro", "CompareNitro", "Nitro", "id", "instances are not ordered by id"},
	}
	vals := []int64{0, 1, 2, 3, 7}
	for _, s := range specs {
		fn := p.Func(s.pkg, "", s.fn)
		fv := p.Field(s.pkg, s.typ, s.field)
		bad := []string{}
		var msg string
		vals := append([]int64{}, vals...)
		if bt, ok := fv.Type().Underlying().(*types.Basic); ok && bt.Info()&types.IsUnsigned != 0 {
			// the whole range of the number counts: boundary values of its width
			switch types.SizesFor("gc", "amd64").Sizeof(fv.Type()) {
			case 4:
				vals = append(vals, 1<<31-1, 1<<31, 1<<32-1)
			case 8:
				vals = append(vals, 1<<31, 1<<32+1, 1<<40)
			}
		}
		for _, a := range vals {
			for _, b := range vals {
				ret, _, _, m := evalComparator(p, fn, 0, map[*types.Var][2]int64{fv: {a, b}})
				if m != "" {
					msg = m
					break
				}
				if sign(ret) != sign(a-b) {
					bad = append(bad, fmt.Sprintf("this.%s=%d that.%s=%d: returns %d", s.field, a, s.field, b, ret))
				}
			}
		}
		if msg != "" {
			c.Undecided(fn, nil, s.fn+" decision table", msg)
			continue
		}
		det := ""
		if len(bad) > 0 {
			det = bad[0] + "; " + s.why
		}
		c.Check(len(bad) == 0, fn, nil, s.fn+" decision table", det)
	}
}

package main

func init() {
	register(&PropCheck{
		ID: "C11",
		Explanation: "Decides, on every path of the restore call graph, the error discipline and shape conditions without which a damaged backup is silently accepted, panics or hangs: " +
			"(a) no error returned by a read/decode/open call in the functions reachable from LoadFromDisk is dropped or only tested (frozen tolerances: absent checksums.json = unchecked by format; Close of read-only files); " +
			"(b) slices decoded from manifest files are length-checked before being indexed in step with another slice; " +
			"(c) no loader goroutine can return from inside its receive loop over the unbuffered work channel; " +
			"(d) checksum verification and the scan of recorded shard errors lie on every path from the loaders' completion to acceptance (store install / NewSnapshot), and a mismatch returns an error; " +
			"(e) DecodeItem returns a nil error only if every read succeeded and end-of-stream only for a zero length prefix. " +
			"NOT decided: checksum collisions, checksum 0 meaning unchecked, behaviour of the byte-level reads themselves.",
		Assumptions: []string{"io.ReadFull, os and encoding/json report failures through their error results"},
		Run: func(c *Ctx) {
			c.Do("C11.a", "L6a no dropped error in the restore path", 10, func() { clRestoreErrors(c) })
			c.Do("C11.b", "L8/L1 external lengths checked before indexing", 2, func() { clExternalLengths(c); clLoaderSliceDiscipline(c) })
			c.Do("C11.c", "L10 loader cannot wedge", 2, func() { clNoWorkerWedge(c, c.P.Func("nitro", "Nitro", "LoadFromDisk")) })
			c.Do("C11.d", "L2 verification precedes acceptance", 6, func() { clVerificationPrecedesAcceptance(c) })
			c.Do("C11.e", "L1 terminator/EOF discipline", 4, func() { clDecodeItemDiscipline(c); clTerminatorAlways(c) })
		},
	})
}

package main

func init() {
	register(&PropCheck{
		ID: "C19",
		Explanation: "Round-trip over all byte strings is an input property; decided is that writer and reader are mirror images: (a) frame grammar agreement — same byte-order object, prefix slice width = decoded integer width = bytes read, current-version reader branch has the writer's width, v0 branch is self-consistent, payload length = decoded prefix, buffers large enough; " +
			"(b) checksum operand agreement — both sides CRC exactly the prefix bytes and the payload bytes they wrote/read and fold with XOR; (c) terminator symmetry — the reader excludes the terminal nil item, and every manifest checksum is sampled before the writer's Close (which folds the terminator in), decided over the defer order; the terminator is written by Close only, before the flush; " +
			"(d) KVToBytes/KVFromBytes/CompareKV agree on (LittleEndian, 16 bit, [0:2], key = [2:2+klen], value = [2+klen:]). NOT decided: keys longer than 65535 bytes (silently truncated length), items >= 4 GiB, bufio.",
		Assumptions: []string{"encoding/binary and hash/crc32 behave as documented"},
		Run: func(c *Ctx) {
			c.Do("C19.a", "L9 frame grammar agreement", 12, func() { clFrameGrammar(c); clReaderVersionAndSingleStream(c); clStreamPrivateState(c) })
			c.Do("C19.b", "L9 checksum operand agreement", 8, func() { clChecksumOperands(c) })
			c.Do("C19.c", "L1+L2 terminator symmetry", 5, func() { clChecksumSampledBeforeClose(c); clDecodeItemDiscipline(c); clTerminatorAlways(c) })
			c.Do("C19.d", "L9 KV helpers agree", 5, func() { clKVHelpers(c) })
		},
	})
}

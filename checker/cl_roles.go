package main

import (
	"fmt"
	"go/token"
	"go/types"

	"golang.org/x/tools/go/ssa"
)

// Comparator role table (L4): skiplist.CompareFn values are interchangeable
// for the type checker; each skiplist instance must consistently be used with
// one comparator family, and within the item store each parameter role has its
// own comparator.

type cmpRole struct {
	fn    *ssa.Function
	param int // index into Args (receiver = 0)
	role  string
}

func (p *Prog) cmpRoles() []cmpRole {
	sl := func(n string) *ssa.Function { return p.Func("skiplist", "Skiplist", n) }
	return []cmpRole{
		{sl("Insert"), 2, "ident"},
		{sl("Insert2"), 2, "ident"}, {sl("Insert2"), 3, "eq"},
		{sl("Insert3"), 2, "ident"}, {sl("Insert3"), 3, "eq"},
		{sl("Insert4"), 2, "ident"}, {sl("Insert4"), 3, "eq"},
		{sl("Delete"), 2, "ident"},
		{sl("DeleteNode"), 2, "ident"},
		{sl("DeleteNode2"), 2, "ident"},
		{sl("Lookup"), 2, "ident"},
		{sl("NewIterator"), 1, "iter"},
		{sl("NewIterator2"), 1, "iter"},
		{p.Func("skiplist", "Iterator", "SeekWithCmp"), 2, "ident"},
		{p.Func("skiplist", "Iterator", "SeekWithCmp"), 3, "eq"},
	}
}

// origin classifies where a CompareFn value comes from.
func cmpOrigin(v ssa.Value) string {
	v = strip(v)
	switch x := v.(type) {
	case *ssa.Function:
		return "func:" + x.Name()
	case *ssa.Const:
		if x.Value == nil {
			return "nil"
		}
	case *ssa.Parameter:
		return "param"
	case *ssa.MakeClosure:
		return "closure:" + x.Fn.Name()
	}
	if f := lastField(v); f != nil {
		return "field:" + f.Name()
	}
	if u, ok := v.(*ssa.UnOp); ok && u.Op == token.MUL {
		if g, ok := u.X.(*ssa.Global); ok {
			return "global:" + g.Name()
		}
	}
	return "?"
}

// listFamily identifies which skiplist instance a receiver denotes.
func (p *Prog) listFamily(v ssa.Value, depth int) string {
	v = strip(v)
	if depth > 4 {
		return "?"
	}
	if call, ok := v.(*ssa.Call); ok {
		// iterator created from a list, or accessor returning the list
		for _, f := range p.Callees(call) {
			switch f.Name() {
			case "NewIterator", "NewIterator2":
				return p.listFamily(call.Call.Args[0], depth+1)
			}
		}
		return "?"
	}
	if _, ok := v.(*ssa.Parameter); ok {
		return "param"
	}
	if u, ok := v.(*ssa.UnOp); ok && u.Op == token.MUL {
		if g, ok := u.X.(*ssa.Global); ok {
			return "global:" + shortPkg(g.Pkg.Pkg.Path()) + "." + g.Name()
		}
		if al, ok := u.X.(*ssa.Alloc); ok {
			// local variable holding an iterator/list: follow its single store
			for _, r := range referrersOf(al) {
				if st, ok := r.(*ssa.Store); ok && st.Addr == ssa.Value(al) {
					return p.listFamily(st.Val, depth+1)
				}
			}
		}
		if fv, ok := u.X.(*ssa.FreeVar); ok {
			if b := closureBinding(fv.Parent(), fv); b != nil {
				if al, ok := b.(*ssa.Alloc); ok {
					for _, r := range referrersOf(al) {
						if st, ok := r.(*ssa.Store); ok && st.Addr == ssa.Value(al) {
							return p.listFamily(st.Val, depth+1)
						}
					}
				}
			}
		}
	}
	if f := lastField(v); f != nil {
		return "field:" + f.Name()
	}
	return "?"
}

var familyTable = map[string]map[string]string{
	// the item store: three roles, three comparators
	"field:store": {"ident": "field:insCmp", "eq": "field:existCmp", "iter": "field:iterCmp"},
	// Go-heap lists, one comparator each, never an exists-comparator
	"field:snapshots":              {"ident": "func:CompareSnapshot", "eq": "nil", "iter": "func:CompareSnapshot"},
	"field:gcsnapshots":            {"ident": "func:CompareSnapshot", "eq": "nil", "iter": "func:CompareSnapshot"},
	"global:nitro.dbInstances":     {"ident": "func:CompareNitro", "eq": "nil", "iter": "func:CompareNitro"},
	"global:nodetable.dbInstances": {"ident": "func:CompareNodeTable", "eq": "nil", "iter": "func:CompareNodeTable"},
	"field:freeq":                  {"ident": "func:CompareBS", "eq": "nil", "iter": "func:CompareBS"},
}

func clComparatorRoles(c *Ctx, onlyFamilies map[string]bool) {
	p := c.P
	roles := p.cmpRoles()
	cnt := counter{}
	n := 0
	for _, fn := range p.Funcs {
		pk := fn.Package().Pkg.Path()
		if pk == modPath+"/examples" {
			continue
		}
		for _, in := range p.Own(fn) {
			cc := callOf(in)
			if cc == nil {
				continue
			}
			for _, r := range roles {
				if !p.CallsAny(in, r.fn) || r.param >= len(cc.Args) {
					continue
				}
				fam := p.listFamily(cc.Args[0], 0)
				org := cmpOrigin(cc.Args[r.param])
				if fam == "param" || org == "param" {
					continue // pass-through inside the skiplist package
				}
				if onlyFamilies != nil && !onlyFamilies[fam] {
					continue
				}
				tbl, known := familyTable[fam]
				construct := cnt.in(fn, fmt.Sprintf("%s(%s) %s-comparator", r.fn.Name(), fam, r.role))
				if !known {
					if pk == modPath+"/skiplist" || pk == modPath+"/nodetable" {
						continue // library-internal lists handled by the families above
					}
					c.Undecided(fn, in, construct, "skiplist instance "+fam+" is not in the comparator family table")
					continue
				}
				n++
				want := tbl[r.role]
				c.Check(org == want, fn, in, construct,
					fmt.Sprintf("comparator %s is used where the %s-role of list %s requires %s: the list is searched/ordered by two different orders (lookups miss existing versions, deletes unlink the wrong version or leave a marked node linked)", org, r.role, fam, want))
			}
		}
	}
	_ = n
}

// Direct calls of the configured comparators inside package nitro (C10.a):
// the shard end test compares the iterator's current item with a pivot and
// must use the same key-only order as the Seek that starts the next shard.
func clVisitorBoundary(c *Ctx) {
	p := c.P
	fn := p.Func("nitro", "Nitro", "Visitor")
	fIns := p.Field("nitro", "Config", "insCmp")
	fIter := p.Field("nitro", "Config", "iterCmp")
	fExist := p.Field("nitro", "Config", "existCmp")
	itGetNode := p.Func("nitro", "Iterator", "GetNode")
	nodeItem := p.Func("skiplist", "Node", "Item")
	itSeek := p.Func("nitro", "Iterator", "Seek")
	cnt := counter{}
	found := 0
	for _, f := range WithAnon(fn) {
		fi := p.Info(f)
		for _, in := range fi.Instrs {
			call, ok := in.(*ssa.Call)
			if !ok || call.Call.IsInvoke() || call.Call.StaticCallee() != nil {
				continue
			}
			fld := lastField(call.Call.Value)
			if fld != fIns && fld != fIter && fld != fExist {
				continue
			}
			// operand 0 = the iterator's current item?
			cur := false
			if a, ok := strip(call.Call.Args[0]).(*ssa.Call); ok && p.CallsAny(a, nodeItem) {
				if b, ok := strip(a.Call.Args[0]).(*ssa.Call); ok && p.CallsAny(b, itGetNode) {
					cur = true
				}
			}
			if !cur {
				c.Note("%s: comparator %s applied to pivot candidates (either order is acceptable once shard ends are key-only)", fname(f), fld.Name())
				continue
			}
			found++
			c.Check(fld == fIter, f, in, cnt.in(f, "shard end test uses the key-only comparator"),
				"a shard starts by a key-only Seek to its pivot but ends by comparing (key, bornSn): when the pivot is another version of a key than the visible one, that key is delivered by two neighbouring shards (or by none)")
			// decision table of the end test: the item is delivered iff it sorts
			// strictly below the end pivot
			var cv int64
			it := &interp{p: p}
			it.load = func(chain []*types.Var, root ssa.Value, env map[ssa.Value]ival) (ival, bool) {
				return ival{kind: 'p', h: root}, true
			}
			it.call = func(ci *ssa.Call, args []ival, env map[ssa.Value]ival) (ival, bool) {
				if ci == call {
					return ival{kind: 'i', i: cv}, true
				}
				if p.CallsAny(ci, itGetNode, nodeItem) {
					return ival{kind: 'p', h: ci}, true
				}
				return ival{}, false
			}
			it.stop = func(x ssa.Instruction) (string, bool) {
				if cl, ok := x.(*ssa.Call); ok && cl != call && cl.Call.StaticCallee() == nil && !cl.Call.IsInvoke() {
					if n, ok := cl.Call.Value.Type().(*types.Named); ok && n.Obj().Name() == "VisitorCallback" {
						return "deliver", true
					}
				}
				switch u := x.(type) {
				case *ssa.UnOp:
					if u.Op == token.ARROW {
						return "stop", true
					}
				case *ssa.RunDefers, *ssa.Return:
					return "stop", true
				}
				return "", false
			}
			it.ignoreStore = func(*ssa.Store) bool { return true }
			var bad []string
			msg := ""
			for _, cv = range []int64{-5, -1, 0, 1, 9} {
				var r runResult
				it.steps = 0
				msg = tryInterp(func() { r = it.Run(f, call.Block(), 0, map[ssa.Value]ival{}) })
				if msg != "" {
					break
				}
				if (r.outcome == "deliver") != (cv < 0) {
					bad = append(bad, fmt.Sprintf("cmp(current item, end pivot)=%d: outcome %s", cv, r.outcome))
				}
			}
			if msg != "" {
				c.Undecided(f, in, cnt.in(f, "shard end decision"), "outside the comparison-only fragment: "+msg)
			} else {
				det := ""
				if len(bad) > 0 {
					det = bad[0] + "; an item equal to the end pivot's key belongs to the NEXT shard (which seeks it): delivering it here duplicates it, stopping early loses items"
				}
				c.Check(len(bad) == 0, f, in, cnt.in(f, "shard delivers exactly the items strictly below its end pivot"), det)
			}
			// the end pivot is pivotItems[shard+1]
			if ld, ok := strip(call.Call.Args[1]).(*ssa.UnOp); ok {
				if ia, ok := ld.X.(*ssa.IndexAddr); ok {
					b, isAdd := strip(ia.Index).(*ssa.BinOp)
					c.Check(isAdd && b.Op == token.ADD && (isConstInt(1)(b.Y) || isConstInt(1)(b.X)), f, in, cnt.in(f, "end pivot is pivotItems[shard+1]"), "the shard is bounded by the wrong pivot")
				}
			}
		}
		// shard start: key-only seek with the start pivot's bytes, or SeekFirst for the first shard
		for _, sk := range p.CallSites(f, itSeek) {
			_ = sk
		}
	}
	if found == 0 {
		undecidedf("Visitor: no shard end test (comparator applied to the iterator's current item) found")
	}
}

// Wiring of the three comparators in Config.SetKeyComparator.
func clComparatorWiring(c *Ctx) {
	p := c.P
	fn := p.Func("nitro", "Config", "SetKeyComparator")
	want := map[*types.Var]*ssa.Function{
		p.Field("nitro", "Config", "insCmp"):   p.Func("nitro", "", "newInsertCompare"),
		p.Field("nitro", "Config", "iterCmp"):  p.Func("nitro", "", "newIterCompare"),
		p.Field("nitro", "Config", "existCmp"): p.Func("nitro", "", "newExistCompare"),
	}
	for fv, ctor := range want {
		sts := p.storesTo(fn, fv)
		ok := len(sts) == 1
		if ok {
			call, isCall := strip(sts[0].Val).(*ssa.Call)
			ok = isCall && p.CallsAny(call, ctor) && strip(call.Call.Args[0]) == strip(fn.Params[1])
		}
		var at ssa.Instruction
		if len(sts) > 0 {
			at = sts[0]
		}
		c.Check(ok, fn, at, "Config."+fv.Name()+" = "+ctor.Name()+"(user key comparator)", "the comparator slot is wired to the wrong constructor or to a different key comparator")
	}
	// nobody else rewires them
	for fv := range want {
		for _, w := range p.fieldWrites(fv) {
			if !p.sameRoot(w.fn, fn) {
				c.Check(false, w.fn, w.in, "write of Config."+fv.Name()+" outside SetKeyComparator", "a comparator slot is replaced separately from its siblings: the three orders no longer derive from one key comparator")
			}
		}
	}
}

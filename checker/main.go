package main

import (
	"flag"
	"fmt"
	"os"
	"path/filepath"
	"sort"
	"strconv"
	"strings"
	"time"
)

// PropCheck is the decision procedure of one property.
type PropCheck struct {
	ID          string
	Explanation string   // what is decided and what is not (goes into evidence)
	Assumptions []string // trusted / assumed
	Run         func(c *Ctx)
	RunB        func(c *Ctx) // optional: arm64/!amd64 configuration (skiplist only)
}

var registry = map[string]*PropCheck{}

func register(pc *PropCheck) { registry[pc.ID] = pc }

func main() {
	repo := flag.String("repo", "/repo", "repository to analyse")
	tier := flag.String("tier", "quick", "quick|thorough")
	evdir := flag.String("evidence", "/verif/evidence", "evidence directory")
	findings := flag.String("findings", "/verif/known_findings.json", "known findings file")
	verbose := flag.Bool("v", false, "print every obligation")
	flag.Parse()
	ids := flag.Args()
	if len(ids) == 0 {
		fmt.Fprintln(os.Stderr, "usage: nitrocheck [-repo dir] [-tier quick|thorough] <property id>...|all")
		os.Exit(2)
	}
	if len(ids) == 1 && ids[0] == "all" {
		ids = nil
		for id := range registry {
			ids = append(ids, id)
		}
		sort.Strings(ids)
	}
	seed := int64(0)
	if s := os.Getenv("VERIF_SEED"); s != "" {
		seed, _ = strconv.ParseInt(s, 10, 64)
	}
	abs, err := filepath.Abs(*repo)
	if err == nil {
		*repo = abs
	}
	start := time.Now()
	progA, err := Load(*repo, "amd64", false)
	if err != nil {
		fmt.Fprintf(os.Stderr, "nitrocheck: cannot analyse %s: %v\n", *repo, err)
		os.Exit(2)
	}
	var progB *Prog
	needB := false
	for _, id := range ids {
		if pc := registry[id]; pc != nil && pc.RunB != nil {
			needB = true
		}
	}
	if needB {
		progB, err = Load(*repo, "arm64-nocgo", false)
		if err != nil {
			fmt.Fprintf(os.Stderr, "nitrocheck: cannot analyse %s (arm64): %v\n", *repo, err)
			os.Exit(2)
		}
	}
	loadS := time.Since(start).Seconds()
	known, err := loadFindings(*findings)
	if err != nil {
		fmt.Fprintf(os.Stderr, "nitrocheck: %v\n", err)
		os.Exit(2)
	}
	exit := 0
	for _, id := range ids {
		pc := registry[id]
		if pc == nil {
			fmt.Fprintf(os.Stderr, "nitrocheck: no check for property %s\n", id)
			exit = 2
			continue
		}
		t0 := time.Now()
		ctx := &Ctx{P: progA, Property: id}
		pc.Run(ctx)
		obs := ctx.Obs
		notes := ctx.Notes
		mins := ctx.mins
		configs := []string{"linux/amd64 cgo, all packages"}
		if pc.RunB != nil && progB != nil {
			cb := &Ctx{P: progB, Property: id}
			pc.RunB(cb)
			obs = append(obs, cb.Obs...)
			notes = append(notes, cb.Notes...)
			for k, v := range cb.mins {
				mins[k+"@arm64"] = v
			}
			configs = append(configs, "linux/arm64 nocgo, package skiplist (the !amd64 node implementation)")
		}
		sortObs(obs)
		// classify violations against the known-findings file
		nv, nu := 0, 0
		for i := range obs {
			o := &obs[i]
			if o.Status == Violation {
				for _, f := range known {
					if f.Status == "known" && f.Property == o.Property && f.Clause == o.Clause && f.Func == o.Func && f.Construct == o.Construct {
						o.Status = Known
						o.Detail = f.What + " [" + o.Detail + "]"
					}
				}
			}
			switch o.Status {
			case Violation:
				nv++
			case Undecided:
				nu++
			}
		}
		if *verbose {
			for _, o := range obs {
				fmt.Printf("%-13s %s\n", o.Status, diag(o))
			}
		}
		for _, o := range obs {
			switch o.Status {
			case Known:
				fmt.Printf("KNOWN-FINDING: property=%s %s: %s (%s)\n", id, o.Func, o.Construct, o.Detail)
			case Undecided:
				fmt.Printf("UNDECIDED property=%s %s\n", id, diag(o))
			case Violation:
				fmt.Println(diag(o))
			}
		}
		ri := runInfo{Property: id, Tier: *tier, Seed: seed, WallS: time.Since(t0).Seconds() + loadS,
			Configs: configs, Packages: len(progA.SSAPkgs), Funcs: len(progA.Funcs), Calls: progA.NumCallSites,
			Cmd: "nitrocheck " + strings.Join(os.Args[1:], " ")}
		if err := writeEvidence(*evdir, ri, obs, notes, pc.Explanation, pc.Assumptions, mins); err != nil {
			fmt.Fprintf(os.Stderr, "nitrocheck: writing evidence: %v\n", err)
			exit = 2
		}
		ok := len(obs) - nv - nu
		fmt.Printf("%s: %d obligations, %d discharged or known, %d violations, %d undecided (%.1fs)\n", id, len(obs), ok, nv, nu, ri.WallS)
		if nv > 0 {
			replay := filepath.Join(*evdir, id+".violation.json")
			writeReplay(replay, obs)
			fmt.Printf("VIOLATION property=%s replay=%s\n", id, replay)
			if exit == 0 {
				exit = 1
			}
		} else if nu > 0 {
			exit = 2
		}
	}
	os.Exit(exit)
}

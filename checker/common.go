package main

import (
	"fmt"
	"go/constant"
	"go/token"
	"go/types"
	"strings"

	"golang.org/x/tools/go/ssa"
)

// ---------------------------------------------------------------- atomics

// atomicOp recognises a call to sync/atomic and returns its kind
// (Load, Store, Add, CAS, Swap) and the address operand.
func atomicOp(in ssa.Instruction) (kind string, addr ssa.Value) {
	c := callOf(in)
	if c == nil {
		return "", nil
	}
	f := c.StaticCallee()
	if f != nil {
		if w, ok := atomicWrappers[f]; ok {
			// a call of an atomic accessor wrapper is the operation itself
			return atomicOpRaw(w.inner)
		}
	}
	if in.Parent() != nil {
		if _, inWrapper := atomicWrappers[in.Parent()]; inWrapper {
			return "", nil // attributed to the wrapper's call sites
		}
	}
	return atomicOpRaw(in)
}

func atomicOpRaw(in ssa.Instruction) (kind string, addr ssa.Value) {
	c := callOf(in)
	if c == nil {
		return "", nil
	}
	f := c.StaticCallee()
	if f == nil || f.Pkg == nil || f.Pkg.Pkg.Path() != "sync/atomic" || len(c.Args) == 0 {
		return "", nil
	}
	n := f.Name()
	switch {
	case strings.HasPrefix(n, "Load"):
		kind = "Load"
	case strings.HasPrefix(n, "Store"):
		kind = "Store"
	case strings.HasPrefix(n, "Add"):
		kind = "Add"
	case strings.HasPrefix(n, "CompareAndSwap"):
		kind = "CAS"
	case strings.HasPrefix(n, "Swap"):
		kind = "Swap"
	default:
		return "", nil
	}
	return kind, c.Args[0]
}

// atomicArgs: the effective arguments of the atomic operation `in` (address
// first). For a wrapper call the wrapper's parameters are replaced by the
// actual arguments.
func atomicArgs(in ssa.Instruction) []ssa.Value {
	c := callOf(in)
	if c == nil {
		return nil
	}
	f := c.StaticCallee()
	if f == nil {
		return c.Args
	}
	w, ok := atomicWrappers[f]
	if !ok {
		return c.Args
	}
	actual := callArgs(in)
	var out []ssa.Value
	for i, a := range w.inner.Call.Args {
		if i == 0 {
			out = append(out, a)
			continue
		}
		if prm, isP := stripConv(a).(*ssa.Parameter); isP {
			found := false
			for j, q := range f.Params {
				if q == prm && j < len(actual) {
					out = append(out, actual[j])
					found = true
				}
			}
			if !found {
				out = append(out, a)
			}
			continue
		}
		out = append(out, a)
	}
	return out
}

// atomicOnField: in is an atomic op of the given kind on field fv.
func atomicOnField(in ssa.Instruction, fv *types.Var) (string, bool) {
	k, addr := atomicOp(in)
	if k == "" {
		return "", false
	}
	f, _ := addrField(addr)
	return k, f == fv
}

// isFreshBase: the struct whose field is written was allocated in this very
// function (composite literal / local variable) – an unpublished object.
func isFreshBase(base ssa.Value) bool {
	base = strip(base)
	switch b := base.(type) {
	case *ssa.Alloc:
		return true
	case *ssa.FieldAddr:
		return isFreshBase(b.X)
	}
	return false
}

// fieldWrites enumerates all instructions in the module that write field fv:
// plain stores and atomic RMW/stores.
type fieldWrite struct {
	fn   *ssa.Function
	in   ssa.Instruction
	kind string // "store", "Add", "CAS", "Store", "Swap"
	base ssa.Value
	val  ssa.Value
}

func (p *Prog) fieldWrites(fv *types.Var) []fieldWrite {
	var out []fieldWrite
	for _, fn := range p.Funcs {
		for _, in := range p.Own(fn) {
			if st, ok := in.(*ssa.Store); ok {
				if f, base := addrField(st.Addr); f == fv {
					out = append(out, fieldWrite{fn, in, "store", base, st.Val})
				}
				continue
			}
			if k, addr := atomicOp(in); k != "" && k != "Load" {
				if f, base := addrField(addr); f == fv {
					var val ssa.Value
					args := callOf(in).Args
					if len(args) > 1 {
						val = args[len(args)-1]
					}
					out = append(out, fieldWrite{fn, in, k, base, val})
				}
			}
		}
	}
	return out
}

// structCopies finds whole-struct stores `*p = v` where the struct type is
// named typ (these write every field).
func (p *Prog) structStores(named *types.Named) []fieldWrite {
	var out []fieldWrite
	for _, fn := range p.Funcs {
		for _, in := range p.Own(fn) {
			st, ok := in.(*ssa.Store)
			if !ok {
				continue
			}
			pt, ok := st.Addr.Type().Underlying().(*types.Pointer)
			if !ok {
				continue
			}
			if types.Identical(pt.Elem(), named) {
				out = append(out, fieldWrite{fn, in, "struct-store", st.Addr, st.Val})
			}
		}
	}
	return out
}

// ---------------------------------------------------------------- misc helpers

func (p *Prog) describe(in ssa.Instruction) string {
	if in == nil {
		return "-"
	}
	s := in.String()
	if v, ok := in.(ssa.Value); ok && v.Name() != "" {
		s = v.Name() + " = " + s
	}
	return s
}

// calleeName gives a stable name for the (first) callee of a call site.
func (p *Prog) calleeName(in ssa.Instruction) string {
	cs := p.Callees(in)
	if len(cs) == 0 {
		c := callOf(in)
		if c != nil {
			if b, ok := c.Value.(*ssa.Builtin); ok {
				return b.Name()
			}
			if c.IsInvoke() {
				return "invoke " + c.Method.Name()
			}
		}
		return "?"
	}
	return fname(cs[0])
}

// nth numbering of similar constructs inside a function keeps keys stable
// without line numbers.
type counter map[string]int

func (c counter) next(s string) string {
	c[s]++
	if c[s] == 1 {
		return s
	}
	return fmt.Sprintf("%s #%d", s, c[s])
}

// in numbers similar constructs per function.
func (c counter) in(fn *ssa.Function, s string) string {
	k := fname(fn) + "|" + s
	c[k]++
	if c[k] == 1 {
		return s
	}
	return fmt.Sprintf("%s #%d", s, c[k])
}

// factIsCallTrue: fact says "result of a call to fn is val".
func (fi *FuncInfo) guardedByCall(at ssa.Instruction, val bool, fns ...*ssa.Function) bool {
	return fi.Guarded(at, func(v ssa.Value, fv bool) bool {
		if fv != val {
			return false
		}
		v = fi.resolveCell(v)
		call, ok := v.(*ssa.Call)
		return ok && fi.P.CallsAny(call, fns...)
	})
}

// guardedByValue: fact says "value v (after cell resolution) is val".
func (fi *FuncInfo) guardedByValue(at ssa.Instruction, want ssa.Value, val bool) bool {
	return fi.Guarded(at, func(v ssa.Value, fv bool) bool {
		if fv != val {
			return false
		}
		return fi.resolveCell(v) == want || v == want
	})
}

// guardedByCmp: some fact at `at` is a comparison matching (op, mx, my).
func (fi *FuncInfo) guardedByCmp(at ssa.Instruction, op token.Token, mx, my func(ssa.Value) bool) bool {
	return fi.Guarded(at, func(v ssa.Value, fv bool) bool {
		c, ok := cmpOf(v, fv)
		if !ok {
			return false
		}
		return c.match(op, mx, my)
	})
}

func isConstInt(n int64) func(ssa.Value) bool {
	return func(v ssa.Value) bool {
		i, ok := constInt(v)
		return ok && i == n
	}
}

func isValue(w ssa.Value) func(ssa.Value) bool {
	return func(v ssa.Value) bool { return strip(v) == strip(w) }
}

func anyValue(ssa.Value) bool { return true }

// loadsField: v is a load of field fv.
func loadsField(fv *types.Var) func(ssa.Value) bool {
	return func(v ssa.Value) bool {
		f, _ := loadedField(v)
		return f == fv
	}
}

// firstCall returns the first call site in fn to any of fns (nil if none).
func (p *Prog) firstCall(fn *ssa.Function, fns ...*ssa.Function) ssa.Instruction {
	cs := p.CallSites(fn, fns...)
	if len(cs) == 0 {
		return nil
	}
	return cs[0]
}

// inLoop: the instruction can reach itself.
func (fi *FuncInfo) inLoop(in ssa.Instruction) bool {
	return fi.PathAvoiding(in, func(x ssa.Instruction) bool { return x == in }, nil) != nil
}

// storesTo lists stores in fn whose address is field fv.
func (p *Prog) storesTo(fn *ssa.Function, fv *types.Var) []*ssa.Store {
	var out []*ssa.Store
	for _, in := range p.Info(fn).Instrs {
		if st, ok := in.(*ssa.Store); ok {
			if f, _ := addrField(st.Addr); f == fv {
				out = append(out, st)
			}
		}
	}
	return out
}

// closureBinding: inside closure fn, FreeVar fv corresponds to which value in
// the parent (the MakeClosure binding).
func closureBinding(fn *ssa.Function, fv *ssa.FreeVar) ssa.Value {
	parent := fn.Parent()
	if parent == nil {
		return nil
	}
	idx := -1
	for i, f := range fn.FreeVars {
		if f == fv {
			idx = i
		}
	}
	if idx < 0 {
		return nil
	}
	for _, b := range parent.Blocks {
		for _, in := range b.Instrs {
			if mc, ok := in.(*ssa.MakeClosure); ok && mc.Fn == fn {
				return mc.Bindings[idx]
			}
		}
	}
	return nil
}

// makeClosureOf finds the MakeClosure instruction creating fn in its parent.
func makeClosureOf(fn *ssa.Function) *ssa.MakeClosure {
	parent := fn.Parent()
	if parent == nil {
		return nil
	}
	for _, b := range parent.Blocks {
		for _, in := range b.Instrs {
			if mc, ok := in.(*ssa.MakeClosure); ok && mc.Fn == fn {
				return mc
			}
		}
	}
	return nil
}

// deferredClosures returns the closures that fn defers, with the Defer instr.
func deferredClosures(fn *ssa.Function) map[*ssa.Function]*ssa.Defer {
	out := map[*ssa.Function]*ssa.Defer{}
	for _, b := range fn.Blocks {
		for _, in := range b.Instrs {
			d, ok := in.(*ssa.Defer)
			if !ok {
				continue
			}
			if mc, ok := d.Call.Value.(*ssa.MakeClosure); ok {
				out[mc.Fn.(*ssa.Function)] = d
			}
		}
	}
	return out
}

// goClosures returns closures started with `go` in fn.
func goClosures(fn *ssa.Function) map[*ssa.Function]*ssa.Go {
	out := map[*ssa.Function]*ssa.Go{}
	for _, b := range fn.Blocks {
		for _, in := range b.Instrs {
			g, ok := in.(*ssa.Go)
			if !ok {
				continue
			}
			if mc, ok := g.Call.Value.(*ssa.MakeClosure); ok {
				out[mc.Fn.(*ssa.Function)] = g
			} else if f, ok := g.Call.Value.(*ssa.Function); ok {
				out[f] = g
			}
		}
	}
	return out
}

const (
	tokEQL = token.EQL
	tokNEQ = token.NEQ
	tokLSS = token.LSS
	tokLEQ = token.LEQ
	tokGTR = token.GTR
	tokGEQ = token.GEQ
)

func constantInt64(c *types.Const) (int64, bool) {
	return constant.Int64Val(constant.ToInt(c.Val()))
}

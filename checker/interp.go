package main

import (
	"fmt"
	"go/constant"
	"go/token"
	"go/types"

	"golang.org/x/tools/go/ssa"
)

// L5: decision-table extraction for comparison-only code.
//
// The evaluator runs a small SSA function (or a region of one) on CONCRETE
// integers drawn from a finite domain chosen by the rule. It supports only
// integer/boolean arithmetic, comparisons, conversions, phis, branches, loads
// of struct fields that the rule binds to domain values ("atoms"), and calls
// that the rule either binds to a domain value (e.g. the user key comparator)
// or that are static module functions which are themselves in the fragment.
// Anything else (stores to bound fields, unknown calls, memory) makes it
// answer "outside the fragment" -> the clause is UNDECIDED. It never runs
// nitro code; it interprets the checker's own view of the SSA.

type ival struct {
	i    int64
	b    bool
	kind byte // 'i' int, 'b' bool, 'p' opaque pointer/handle, 'u' unit
	h    interface{}
}

type elemAddr struct {
	base interface{}
	idx  int64
}

type outsideFragment struct{ msg string }

func outsidef(format string, a ...interface{}) { panic(outsideFragment{fmt.Sprintf(format, a...)}) }

type interp struct {
	p *Prog
	// load resolves a memory read `*addr` to a domain value. root is the
	// value at the bottom of the access path, chain the fields (innermost last)
	load func(chain []*types.Var, root ssa.Value, env map[ssa.Value]ival) (ival, bool)
	// call gives the result of a call the rule wants to bind (returns ok=false
	// to let the interpreter try to inline a static callee)
	call func(in *ssa.Call, args []ival, env map[ssa.Value]ival) (ival, bool)
	// stop: reaching this instruction ends the run with outcome name
	stop func(in ssa.Instruction) (string, bool)
	// ignoreStore: stores (to non-local memory) that do not influence the decision
	ignoreStore func(st *ssa.Store) bool
	depth       int
	steps       int
	// floatConsts: float constants are modelled as fixed-point integers (x 1e6);
	// only for rules that merely compare a bound random draw with a constant
	floatConsts bool
	env         map[ssa.Value]ival // environment of the outermost frame (for hooks)
	// element memory: when non-nil, IndexAddr yields addresses {base handle, index}; stores/loads go through elemMem,
	// unknown elements through loadElem (nil pointer when that declines)
	elemMem  map[elemAddr]ival
	loadElem func(a elemAddr) (ival, bool)
	// loadAddr, when set, is consulted first for loads (gives access to the base pointer's value)
	loadAddr func(u *ssa.UnOp, env map[ssa.Value]ival) (ival, bool)
}

type runResult struct {
	outcome string // name given by stop, or "return"
	ret     []ival
}

func wrapInt(v int64, t types.Type) int64 {
	b, ok := t.Underlying().(*types.Basic)
	if !ok {
		return v
	}
	switch b.Kind() {
	case types.Int8:
		return int64(int8(v))
	case types.Int16:
		return int64(int16(v))
	case types.Int32:
		return int64(int32(v))
	case types.Uint8:
		return int64(uint8(v))
	case types.Uint16:
		return int64(uint16(v))
	case types.Uint32:
		return int64(uint32(v))
	case types.Uint64, types.Uint, types.Uintptr:
		return v // modelled on int64; domain values stay far from 2^63
	}
	return v
}

func isUnsigned(t types.Type) bool {
	b, ok := t.Underlying().(*types.Basic)
	return ok && b.Info()&types.IsUnsigned != 0
}

func (it *interp) val(v ssa.Value, env map[ssa.Value]ival) ival {
	if x, ok := env[v]; ok {
		return x
	}
	switch c := v.(type) {
	case *ssa.Const:
		if c.Value == nil {
			return ival{kind: 'p', h: nil}
		}
		switch c.Value.Kind() {
		case constant.Int:
			i, _ := constant.Int64Val(c.Value)
			return ival{kind: 'i', i: i}
		case constant.Bool:
			return ival{kind: 'b', b: constant.BoolVal(c.Value)}
		case constant.Float:
			if it.floatConsts {
				f, _ := constant.Float64Val(c.Value)
				return ival{kind: 'i', i: int64(f * 1e6)}
			}
		}
		outsidef("constant %v", c)
	case *ssa.Parameter, *ssa.FreeVar, *ssa.Global, *ssa.Function:
		return ival{kind: 'p', h: v}
	}
	// a value computed outside the interpreted region: an opaque handle (any
	// attempt to do arithmetic with it leaves the fragment)
	return ival{kind: 'p', h: v}
}

// Run interprets fn from (block b, index i) with env pre-populated.
func (it *interp) Run(fn *ssa.Function, b *ssa.BasicBlock, idx int, env map[ssa.Value]ival) (res runResult) {
	var prev *ssa.BasicBlock
	if it.depth == 0 {
		it.env = env
	}
	for {
		for i := idx; i < len(b.Instrs); i++ {
			in := b.Instrs[i]
			it.steps++
			if it.steps > 20000 {
				outsidef("step limit (unbounded loop?) in %s", fname(fn))
			}
			if it.stop != nil {
				if name, ok := it.stop(in); ok {
					return runResult{outcome: name}
				}
			}
			switch x := in.(type) {
			case *ssa.Phi:
				found := false
				for k, p := range b.Preds {
					if p == prev {
						env[x] = it.val(x.Edges[k], env)
						found = true
						break
					}
				}
				if !found {
					outsidef("phi without predecessor in %s", fname(fn))
				}
			case *ssa.BinOp:
				env[x] = it.binop(x, it.val(x.X, env), it.val(x.Y, env))
			case *ssa.UnOp:
				switch x.Op {
				case token.NOT:
					a := it.val(x.X, env)
					env[x] = ival{kind: 'b', b: !a.b}
				case token.SUB:
					a := it.val(x.X, env)
					env[x] = ival{kind: 'i', i: wrapInt(-a.i, x.Type())}
				case token.MUL:
					if a, ok := env[x.X]; ok && a.kind == 'a' && it.elemMem != nil {
						key := a.h.(elemAddr)
						if v, ok := it.elemMem[key]; ok {
							env[x] = v
							break
						}
						if it.loadElem != nil {
							if v, ok := it.loadElem(key); ok {
								env[x] = v
								break
							}
						}
						env[x] = ival{kind: 'p', h: nil}
						break
					}
					if it.loadAddr != nil {
						if v, ok := it.loadAddr(x, env); ok {
							env[x] = v
							break
						}
					}
					chain, root := fieldPath(x)
					if al, ok := root.(*ssa.Alloc); ok && len(chain) == 0 {
						// local cell
						if v, ok := env[al]; ok && v.kind == 'c' {
							env[x] = *(v.h.(*ival))
							break
						}
					}
					if it.load == nil {
						outsidef("load %v", x)
					}
					v, ok := it.load(chain, root, env)
					if !ok {
						names := ""
						for _, f := range chain {
							names += "." + f.Name()
						}
						outsidef("load of %s%s is not an atom of this rule", root.Name(), names)
					}
					v.i = wrapInt(v.i, x.Type())
					env[x] = v
				default:
					outsidef("unop %v", x)
				}
			case *ssa.Convert:
				a := it.val(x.X, env)
				if a.kind == 'i' {
					env[x] = ival{kind: 'i', i: wrapInt(a.i, x.Type())}
				} else {
					env[x] = a
				}
			case *ssa.ChangeType:
				env[x] = it.val(x.X, env)
			case *ssa.IndexAddr:
				if it.elemMem != nil {
					base := it.val(x.X, env)
					idx := it.val(x.Index, env)
					if idx.kind == 'i' {
						env[x] = ival{kind: 'a', h: elemAddr{base.h, idx.i}}
						break
					}
				}
				env[x] = ival{kind: 'p', h: x}
			case *ssa.Slice:
				env[x] = it.val(x.X, env)
			case *ssa.FieldAddr, *ssa.Field:
				env[x.(ssa.Value)] = ival{kind: 'p', h: x}
			case *ssa.Alloc:
				if it.elemMem != nil {
					if _, isArr := x.Type().Underlying().(*types.Pointer).Elem().Underlying().(*types.Array); isArr {
						env[x] = ival{kind: 'p', h: x}
						break
					}
				}
				cell := &ival{kind: 'i'}
				if bt, ok := x.Type().Underlying().(*types.Pointer).Elem().Underlying().(*types.Basic); ok && bt.Info()&types.IsBoolean != 0 {
					cell.kind = 'b'
				}
				env[x] = ival{kind: 'c', h: cell}
			case *ssa.Store:
				if a, ok := env[x.Addr]; ok && a.kind == 'a' && it.elemMem != nil {
					it.elemMem[a.h.(elemAddr)] = it.val(x.Val, env)
					break
				}
				if al, ok := x.Addr.(*ssa.Alloc); ok {
					if c, ok := env[al]; ok && c.kind == 'c' {
						*(c.h.(*ival)) = it.val(x.Val, env)
						break
					}
				}
				if it.ignoreStore != nil && it.ignoreStore(x) {
					break
				}
				outsidef("store %v", x)
			case *ssa.Call:
				var args []ival
				for _, a := range x.Call.Args {
					if v, ok := env[a]; ok {
						args = append(args, v)
					} else if _, isC := a.(*ssa.Const); isC {
						args = append(args, it.val(a, env))
					} else {
						args = append(args, ival{kind: 'p', h: a})
					}
				}
				if it.call != nil {
					if v, ok := it.call(x, args, env); ok {
						env[x] = v
						break
					}
				}
				callee := x.Call.StaticCallee()
				if callee == nil || callee.Blocks == nil || it.depth >= 3 {
					outsidef("call %v is outside the fragment", x)
				}
				sub := map[ssa.Value]ival{}
				for k, prm := range callee.Params {
					sub[prm] = args[k]
				}
				it.depth++
				r := it.Run(callee, callee.Blocks[0], 0, sub)
				it.depth--
				if r.outcome != "return" {
					return r
				}
				if len(r.ret) == 1 {
					env[x] = r.ret[0]
				} else {
					env[x] = ival{kind: 't', h: r.ret}
				}
			case *ssa.Extract:
				t := it.val(x.Tuple, env)
				env[x] = t.h.([]ival)[x.Index]
			case *ssa.If:
				c := it.val(x.Cond, env)
				prev = b
				if c.b {
					b = b.Succs[0]
				} else {
					b = b.Succs[1]
				}
				idx = 0
				goto next
			case *ssa.Jump:
				prev = b
				b = b.Succs[0]
				idx = 0
				goto next
			case *ssa.Return:
				var out []ival
				for _, r := range x.Results {
					out = append(out, it.val(r, env))
				}
				return runResult{outcome: "return", ret: out}
			case *ssa.DebugRef, *ssa.Defer, *ssa.RunDefers:
			default:
				outsidef("instruction %T (%v) is outside the comparison-only fragment", in, in)
			}
		}
		outsidef("fell off block %d of %s", b.Index, fname(fn))
	next:
	}
}

func (it *interp) binop(x *ssa.BinOp, a, b ival) ival {
	if a.kind == 'b' && b.kind == 'b' {
		switch x.Op {
		case token.EQL:
			return ival{kind: 'b', b: a.b == b.b}
		case token.NEQ:
			return ival{kind: 'b', b: a.b != b.b}
		case token.AND:
			return ival{kind: 'b', b: a.b && b.b}
		case token.OR:
			return ival{kind: 'b', b: a.b || b.b}
		}
	}
	if a.kind == 'p' || b.kind == 'p' {
		switch x.Op {
		case token.EQL:
			return ival{kind: 'b', b: a.h == b.h}
		case token.NEQ:
			return ival{kind: 'b', b: a.h != b.h}
		}
		outsidef("pointer arithmetic %v", x)
	}
	if a.kind != 'i' || b.kind != 'i' {
		outsidef("binop %v on non-integers", x)
	}
	t := x.X.Type()
	switch x.Op {
	case token.ADD:
		return ival{kind: 'i', i: wrapInt(a.i+b.i, x.Type())}
	case token.SUB:
		return ival{kind: 'i', i: wrapInt(a.i-b.i, x.Type())}
	case token.MUL:
		return ival{kind: 'i', i: wrapInt(a.i*b.i, x.Type())}
	case token.EQL:
		return ival{kind: 'b', b: a.i == b.i}
	case token.NEQ:
		return ival{kind: 'b', b: a.i != b.i}
	case token.LSS, token.LEQ, token.GTR, token.GEQ:
		var lt, eq bool
		if isUnsigned(t) {
			lt, eq = uint64(a.i) < uint64(b.i), a.i == b.i
		} else {
			lt, eq = a.i < b.i, a.i == b.i
		}
		switch x.Op {
		case token.LSS:
			return ival{kind: 'b', b: lt}
		case token.LEQ:
			return ival{kind: 'b', b: lt || eq}
		case token.GTR:
			return ival{kind: 'b', b: !lt && !eq}
		default:
			return ival{kind: 'b', b: !lt}
		}
	}
	outsidef("binop %v", x)
	return ival{}
}

// tryInterp runs f and converts an outside-fragment panic into an error text.
func tryInterp(f func()) (msg string) {
	defer func() {
		if r := recover(); r != nil {
			if o, ok := r.(outsideFragment); ok {
				msg = o.msg
				return
			}
			panic(r)
		}
	}()
	f()
	return ""
}

func sign(i int64) int {
	switch {
	case i < 0:
		return -1
	case i > 0:
		return 1
	}
	return 0
}

package main

import (
	"fmt"
	"go/constant"
	"go/token"
	"go/types"
	"strings"

	"golang.org/x/tools/go/ssa"
)

var errorType = types.Universe.Lookup("error").Type()

// errResult returns the error-typed result value of a call (nil if the callee
// has none), and whether it is syntactically dropped.
func errResult(call ssa.Instruction) (val ssa.Value, has bool) {
	cc := callOf(call)
	if cc == nil {
		return nil, false
	}
	sig := cc.Signature()
	res := sig.Results()
	if res.Len() == 0 {
		return nil, false
	}
	last := res.At(res.Len() - 1).Type()
	if !types.Identical(last, errorType) {
		return nil, false
	}
	v, ok := call.(ssa.Value)
	if !ok {
		return nil, true // defer/go: result discarded
	}
	if res.Len() == 1 {
		return v, true
	}
	for _, r := range referrersOf(v) {
		if e, ok := r.(*ssa.Extract); ok && e.Index == res.Len()-1 {
			return e, true
		}
	}
	return nil, true
}

// errSinks follows an error value through phis/conversions and returns the
// instructions that record or propagate it: returns, stores, sends, calls
// (other than pure predicates).
func (p *Prog) errSinks(v ssa.Value) []ssa.Instruction {
	var out []ssa.Instruction
	seen := map[ssa.Value]bool{}
	var walk func(v ssa.Value)
	walk = func(v ssa.Value) {
		if v == nil || seen[v] {
			return
		}
		seen[v] = true
		for _, r := range referrersOf(v) {
			switch x := r.(type) {
			case *ssa.Return:
				out = append(out, r)
			case *ssa.Store:
				if x.Val == v {
					out = append(out, r)
					// a local cell: follow its loads
					if al, ok := x.Addr.(*ssa.Alloc); ok {
						for _, rr := range referrersOf(al) {
							if ld, ok := rr.(*ssa.UnOp); ok && ld.Op == token.MUL {
								walk(ld)
							}
						}
					}
				}
			case *ssa.Send:
				out = append(out, r)
			case *ssa.MapUpdate:
				out = append(out, r)
			case *ssa.Phi:
				walk(x)
			case *ssa.MakeInterface:
				walk(x)
			case *ssa.ChangeInterface:
				walk(x)
			case *ssa.ChangeType:
				walk(x)
			case ssa.CallInstruction:
				pure := false
				for _, cal := range p.Callees(r) {
					n := cal.String()
					if n == "os.IsNotExist" || n == "os.IsExist" || n == "errors.Is" || n == "errors.As" {
						pure = true
					}
				}
				if !pure {
					out = append(out, r)
				}
			}
		}
	}
	walk(v)
	return out
}

// pathLabel extracts the constant path components of a filepath.Join based
// argument ("data/files.json" -> files.json), used to name tolerances.
// pathLabelSubst: parameters of a shared helper replaced by the actual
// arguments of the call being labelled (set by pathLabelAt only).
var pathLabelSubst = map[ssa.Value]ssa.Value{}

// pathLabelAt labels a path expression inside helper h as seen from the call `at`.
func pathLabelAt(v ssa.Value, h *ssa.Function, at ssa.Instruction) string {
	args := callArgs(at)
	for i, prm := range h.Params {
		if i < len(args) {
			pathLabelSubst[prm] = args[i]
		}
	}
	defer func() { pathLabelSubst = map[ssa.Value]ssa.Value{} }()
	return pathLabel(v)
}

func pathLabel(v ssa.Value) string {
	var parts []string
	seen := map[ssa.Value]bool{}
	var walk func(v ssa.Value)
	walk = func(v ssa.Value) {
		v = strip(v)
		if a, ok := pathLabelSubst[v]; ok {
			v = strip(a)
		}
		if seen[v] {
			return
		}
		seen[v] = true
		switch x := v.(type) {
		case *ssa.Const:
			if x.Value != nil && x.Value.Kind() == constant.String {
				parts = append(parts, constant.StringVal(x.Value))
			}
		case *ssa.Call:
			if f := x.Call.StaticCallee(); f != nil && f.String() == "path/filepath.Join" {
				walk(x.Call.Args[0])
			}
		case *ssa.Slice:
			walk(x.X)
		case *ssa.Alloc:
			for _, r := range referrersOf(x) {
				if ia, ok := r.(*ssa.IndexAddr); ok {
					for _, rr := range referrersOf(ia) {
						if st, ok := rr.(*ssa.Store); ok {
							walk(st.Val)
						}
					}
				}
			}
		case *ssa.BinOp:
			walk(x.X)
			walk(x.Y)
		}
	}
	walk(v)
	var out []string
	for _, s := range parts {
		if s != "" {
			out = append(out, s)
		}
	}
	return strings.Join(out, "/")
}

// reachableFuncs: module functions reachable from root in the call graph
// (through go/defer/closures as well).
func (p *Prog) reachableFrom(roots ...*ssa.Function) []*ssa.Function {
	seen := map[*ssa.Function]bool{}
	var order []*ssa.Function
	var walk func(f *ssa.Function)
	walk = func(f *ssa.Function) {
		if f == nil || seen[f] || f.Blocks == nil {
			return
		}
		if f.Package() == nil || !strings.HasPrefix(f.Package().Pkg.Path(), modPath) {
			return
		}
		seen[f] = true
		order = append(order, f)
		for _, a := range f.AnonFuncs {
			walk(a)
		}
		if n := p.CG.Nodes[f]; n != nil {
			for _, e := range n.Out {
				walk(e.Callee.Func)
			}
		}
	}
	for _, r := range roots {
		walk(r)
	}
	return order
}

type tolerance struct {
	callee string // suffix of callee name
	label  string // path label ("" = any)
	why    string
}

// clNoDroppedErrors (L6a): within `scope`, every call whose callee returns an
// error has that error recorded or propagated.
func clNoDroppedErrors(c *Ctx, scope []*ssa.Function, tolerated []tolerance, onlyCallees func(name string) bool, why string) int {
	p := c.P
	cnt := counter{}
	n := 0
	for _, fn := range scope {
		for _, in := range p.Info(fn).Instrs {
			cc := callOf(in)
			if cc == nil {
				continue
			}
			ev, has := errResult(in)
			if !has {
				continue
			}
			name := p.calleeName(in)
			if cc.IsInvoke() {
				name = "(" + types.TypeString(cc.Value.Type(), func(*types.Package) string { return "" }) + ")." + cc.Method.Name()
			}
			if onlyCallees != nil && !onlyCallees(name) {
				continue
			}
			label := ""
			for _, a := range cc.Args {
				if l := pathLabel(a); l != "" {
					label = l
				}
			}
			construct := "error of " + name
			if label != "" {
				construct += "(" + label + ")"
			}
			construct = cnt.in(fn, construct)
			n++
			var sinks []ssa.Instruction
			if ev != nil {
				sinks = p.errSinks(ev)
			}
			if len(sinks) > 0 {
				c.Check(true, fn, in, construct, "")
				continue
			}
			tol := ""
			for _, t := range tolerated {
				if strings.HasSuffix(name, t.callee) && (t.label == "" || strings.HasSuffix(label, t.label)) {
					tol = t.why
				}
			}
			if tol != "" {
				c.Check(true, fn, in, construct+" [tolerated: "+tol+"]", "")
				continue
			}
			if onFailingPath(p.Info(fn), in) {
				c.Check(true, fn, in, construct+" [on a path that already returns an earlier error]", "")
				continue
			}
			how := "is discarded"
			if ev != nil && len(referrersOf(ev)) > 0 {
				how = "is only tested, never recorded or returned"
			}
			c.Check(false, fn, in, construct, fmt.Sprintf("the error %s: %s", how, why))
		}
	}
	return n
}

// PathFromBlock: like PathAvoiding but starting at the first instruction of b.
func (fi *FuncInfo) PathFromBlock(b *ssa.BasicBlock, target, barrier func(ssa.Instruction) bool) ssa.Instruction {
	if len(b.Instrs) == 0 {
		return nil
	}
	first := b.Instrs[0]
	if target(first) {
		return first
	}
	if barrier != nil && barrier(first) {
		return nil
	}
	return fi.PathAvoiding(first, target, barrier)
}

// loopHeaderOf returns the innermost loop header dominating block b that has
// a back edge from a block it dominates and from which b is... (natural loop
// containing b); nil if b is in no loop.
func loopHeaderOf(b *ssa.BasicBlock) *ssa.BasicBlock {
	for h := b; h != nil; h = h.Idom() {
		for _, p := range h.Preds {
			if h.Dominates(p) || h == p {
				// h is a loop header; is b inside its natural loop (b reaches p without leaving)?
				if inNaturalLoop(h, p, b) {
					return h
				}
			}
		}
	}
	return nil
}

func inNaturalLoop(h, latch, b *ssa.BasicBlock) bool {
	// natural loop of back edge latch->h: all nodes that reach latch without passing h
	seen := map[*ssa.BasicBlock]bool{h: true}
	work := []*ssa.BasicBlock{latch}
	for len(work) > 0 {
		x := work[len(work)-1]
		work = work[:len(work)-1]
		if seen[x] {
			continue
		}
		seen[x] = true
		for _, p := range x.Preds {
			work = append(work, p)
		}
	}
	return seen[b]
}

// onFailingPath: the site is executed only when an earlier error e is non-nil
// and every return reachable from it returns that e.
func onFailingPath(fi *FuncInfo, at ssa.Instruction) bool {
	if onFailingPathIn(fi, at) {
		return true
	}
	// inside a private helper: judged within the helper, provided the caller does not drop the helper's error
	p := fi.P
	for h, n := at.Parent(), 0; h != nil && h != fi.Fn && n < 4; n++ {
		l, ok := p.helpers[h]
		if !ok {
			return false
		}
		ev, has := errResult(l.call)
		if !has || ev == nil || len(p.errSinks(ev)) == 0 {
			return false
		}
		if onFailingPathIn(p.Info(h), at) {
			return true
		}
		h = l.caller
	}
	return false
}

func onFailingPathIn(fi *FuncInfo, at ssa.Instruction) bool {
	for _, f := range fi.FactsAt(at) {
		cmp, ok := cmpOf(f.V, f.Val)
		if !ok || cmp.Op != token.NEQ {
			continue
		}
		e := cmp.X
		if isNilConst(e) {
			e = cmp.Y
		} else if !isNilConst(cmp.Y) {
			continue
		}
		if !types.Identical(e.Type(), errorType) {
			continue
		}
		all := true
		any := false
		for _, ret := range fi.Returns() {
			if !fi.Reaches(at, ret) {
				continue
			}
			any = true
			n := len(ret.Results)
			if n == 0 || (fi.RetVal(ret, n-1) != e && ret.Results[n-1] != e) {
				all = false
			}
		}
		if all && any {
			return true
		}
	}
	return false
}

package main

func init() {
	register(&PropCheck{
		ID: "C02",
		Explanation: "Decides structural necessary conditions of the sequential set semantics: " +
			"(a) the three item comparators equal their reference decision tables (insert = (key, bornSn) lexicographic, iterate = key only, exists = equal iff both alive and keys equal), evaluated over a finite set of orderings, and are wired from one key comparator; " +
			"(b) every comparator argument at every call site on every skiplist instance plays the role the callee's parameter demands (role table over resolved call sites); " +
			"(c) Put2/GetNode/DeleteNode pair results with effects (count, free, returned node, epoch stamps); (d) the same-epoch selector of DeleteNode. " +
			"NOT decided: the skiplist's own search/insert correctness, equivalence with a reference set over operation sequences.",
		Assumptions: []string{"the user key comparator is a total order and does not modify its arguments"},
		Run: func(c *Ctx) {
			c.Do("C02.a", "L5 comparator decision tables", 9, func() { clItemComparatorTables(c); clComparatorWiring(c); clPlainComparatorTables(c) })
			c.Do("C02.b", "L4 comparator role table", 20, func() { clComparatorRoles(c, nil) })
			c.Do("C02.c", "L1+L2 result/effect pairing", 8, func() { clPut2Pairing(c); clGetNodeProbe(c); clAllocItemInitialises(c); clEpochTypesAgree(c) })
			c.Do("C02.d", "L1 delete selector and winner-only effects", 8, func() { clDeleteNodeWinner(c) })
		},
	})
}

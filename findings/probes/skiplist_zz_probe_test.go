// Probe for F15 (package skiplist). Copy into skiplist/ of a scratch worktree.
package skiplist

import "testing"

func TestProbeF15MergeIteratorReseek(t *testing.T) {
	var lists []*Skiplist
	var iters []*Iterator
	for i := 0; i < 2; i++ {
		s := New()
		buf := s.MakeBuf()
		for j := 0; j < 3; j++ {
			s.Insert(NewIntKeyItem(j*2+i), CompareInt, buf, &s.Stats)
		}
		lists = append(lists, s)
		iters = append(iters, s.NewIterator(CompareInt, s.MakeBuf()))
	}
	defer func() {
		if r := recover(); r != nil {
			t.Errorf("panic after re-seek: %v", r)
		}
	}()
	mit := NewMergeIterator(iters)
	mit.SeekFirst()
	mit.Next()
	mit.SeekFirst() // reposition in the middle of a scan
	var got []int
	for ; mit.Valid(); mit.Next() {
		got = append(got, IntFromItem(mit.Get()))
	}
	want := []int{0, 1, 2, 3, 4, 5}
	if len(got) != len(want) {
		t.Fatalf("got %v want %v", got, want)
	}
	for i := range want {
		if got[i] != want[i] {
			t.Fatalf("got %v want %v", got, want)
		}
	}
	mit.Seek(NewIntKeyItem(3))
	got = nil
	for ; mit.Valid(); mit.Next() {
		got = append(got, IntFromItem(mit.Get()))
	}
	if len(got) != 3 || got[0] != 3 {
		t.Fatalf("after Seek(3): got %v want [3 4 5]", got)
	}
}

// Steered probes for the race-window defects F6 and F14. They need the
// scratch-only hooks of steer-hooks.patch (apply it to a scratch worktree,
// never to /repo) which let a test run code at one program point.
package nitro

import (
	"runtime/debug"
	"testing"
	"time"
	"unsafe"

	"github.com/couchbase/nitro/mm"
	"github.com/couchbase/nitro/skiplist"
)

// poisoning allocator: a freed block is overwritten and never reused
type poisonAlloc struct {
	*probeAlloc
}

func (a *poisonAlloc) free(p unsafe.Pointer) {
	a.Lock()
	l, ok := a.live[p]
	a.Unlock()
	if ok {
		b := (*[1 << 20]byte)(p)[:l:l]
		for i := range b {
			b[i] = 0xdd
		}
	}
	a.probeAlloc.free(p)
}

var _ = mm.Malloc

// F6 (C04): Delete2 looks the node up inside a barrier session, leaves the
// session, and only then dereferences the node.
func TestProbeF6Delete2UsesNodeAfterSession(t *testing.T) {
	a := &poisonAlloc{newProbeAlloc()}
	cfg := DefaultConfig()
	cfg.UseMemoryMgmt(a.malloc, a.free)
	db := NewWithConfig(cfg)
	w1 := db.NewWriter()
	w2 := db.NewWriter()
	w1.Put(key(1))
	w1.Put(key(2))
	debug.SetPanicOnFault(true)
	ProbeDelete2Gap = func() {
		ProbeDelete2Gap = nil
		// the other writer deletes the same current-epoch key ...
		if !w1.Delete(key(1)) {
			t.Error("w1 delete failed")
		}
		// ... and the reclaimer frees it if nothing protects it
		for i := 0; i < 100 && a.frees < 2; i++ {
			time.Sleep(5 * time.Millisecond)
		}
	}
	defer func() {
		if r := recover(); r != nil {
			t.Errorf("Delete2 dereferenced a freed node: %v (frees so far %d)", r, a.frees)
		}
	}()
	_, ok := w2.Delete2(key(1))
	if ok {
		t.Errorf("both writers deleted the same item")
	}
	if a.frees >= 2 {
		t.Logf("node was freed inside the gap (frees=%d)", a.frees)
	}
}

// F14 (C17): a session terminating while another goroutine is between the
// end of its cleanup scan and dropping the destructor flag stays pending.
func TestProbeF14LostWakeup(t *testing.T) {
	destructed := 0
	cfg := skiplist.DefaultConfig()
	cfg.UseMemoryMgmt = true
	cfg.Malloc = mm.Malloc
	cfg.Free = mm.Free
	cfg.BarrierDestructor = func(ref unsafe.Pointer) { destructed++ }
	s := skiplist.NewWithConfig(cfg)
	ab := s.GetAccesBarrier()

	tokA := ab.Acquire() // accessor A sits in session 1
	ab.FlushSession(nil) // flush 1 closes session 1 (A still inside)
	tokB := ab.Acquire() // accessor B sits in session 2
	ab.FlushSession(nil) // flush 2 closes session 2 (B still inside)

	skiplist.ProbeCleanupGap = func() {
		skiplist.ProbeCleanupGap = nil
		// "another goroutine": B leaves while A is between the end of its
		// cleanup scan and dropping the destructor flag
		ab.Release(tokB)
	}
	ab.Release(tokA) // terminates session 1, runs the cleanup
	// quiescent: no accessor, no call in progress, two flushes so far
	if destructed != 2 {
		t.Errorf("quiescent after 2 flushes but destructor ran %d times", destructed)
	}
}

// Probes that reproduce the genuine defects F1..F15 listed in /verif/DESIGN.md
// against the real nitro code. They are classification aids only: they are
// NOT registered checks (the registered checks are static). Copy this file
// into a scratch worktree of couchbase/nitro (package nitro) and run
//   go test -run 'TestProbe' -count=1 .
// Each probe fails on the pinned commit and passes on the repaired tree
// (except the ones recorded as known findings, which keep failing).
package nitro

import (
	"fmt"
	"io/ioutil"
	"os"
	"path/filepath"
	"sync"
	"testing"
	"time"
	"unsafe"

	"github.com/couchbase/nitro/mm"
)

// ---------------------------------------------------------------- allocator
type probeAlloc struct {
	sync.Mutex
	live   map[unsafe.Pointer]int
	allocs int
	frees  int
	double int
}

func newProbeAlloc() *probeAlloc { return &probeAlloc{live: map[unsafe.Pointer]int{}} }

func (a *probeAlloc) malloc(l int) unsafe.Pointer {
	p := mm.Malloc(l)
	a.Lock()
	a.live[p] = l
	a.allocs++
	a.Unlock()
	return p
}

// free never returns the block to the C allocator, so that a second free of
// the same address is observed instead of corrupting the heap.
func (a *probeAlloc) free(p unsafe.Pointer) {
	a.Lock()
	if _, ok := a.live[p]; !ok {
		a.double++
	} else {
		delete(a.live, p)
		a.frees++
	}
	a.Unlock()
}

func probeCfg(a *probeAlloc) Config {
	cfg := DefaultConfig()
	if a != nil {
		cfg.UseMemoryMgmt(a.malloc, a.free)
	}
	return cfg
}

func key(i int) []byte { return []byte(fmt.Sprintf("k%06d", i)) }

func scan(snap *Snapshot, rate int) []string {
	it := snap.NewIterator()
	defer it.Close()
	it.SetRefreshRate(rate)
	var out []string
	for it.SeekFirst(); it.Valid(); it.Next() {
		out = append(out, string(it.Get()))
	}
	return out
}

// ---------------------------------------------------------------- F2 (C09)
func TestProbeF2RefreshDuplicates(t *testing.T) {
	db := NewWithConfig(probeCfg(nil))
	defer db.Close()
	w := db.NewWriter()
	for i := 0; i < 10; i++ {
		w.Put(key(i))
	}
	s1, _ := db.NewSnapshot()
	w.Delete(key(5))
	s2, _ := db.NewSnapshot()
	w.Put(key(5))
	s3, _ := db.NewSnapshot()
	for _, rate := range []int{0, 1, 2, 3, 4, 5, 6, 7} {
		got := scan(s3, rate)
		if len(got) != 10 {
			t.Errorf("refresh rate %d: %d items, want 10: %v", rate, len(got), got)
		}
	}
	s1.Close()
	s2.Close()
	s3.Close()
}

// ---------------------------------------------------------------- F3 (C10)
func TestProbeF3VisitorShardBorderDuplicates(t *testing.T) {
	db := NewWithConfig(probeCfg(nil))
	defer db.Close()
	w := db.NewWriter()
	n := 2000
	for i := 0; i < n; i++ {
		w.Put(key(i))
	}
	s1, _ := db.NewSnapshot()
	for i := 0; i < n; i++ {
		w.Delete(key(i))
	}
	s2, _ := db.NewSnapshot()
	for i := 0; i < n; i++ {
		w.Put(key(i))
	}
	s3, _ := db.NewSnapshot()
	for _, shards := range []int{2, 8, 16, 32, 64} {
		var mu sync.Mutex
		count := 0
		db.Visitor(s1, func(itm *Item, shard int) error {
			mu.Lock()
			count++
			mu.Unlock()
			return nil
		}, shards, 4)
		if count != n {
			t.Errorf("shards=%d: visited %d, want %d", shards, count, n)
		}
	}
	s1.Close()
	s2.Close()
	s3.Close()
}

// ---------------------------------------------------------------- F4 (C06)
func TestProbeF4LoserCutsGarbageList(t *testing.T) {
	db := NewWithConfig(probeCfg(nil))
	defer db.Close()
	w1 := db.NewWriter()
	w2 := db.NewWriter()
	for i := 0; i < 10; i++ {
		w1.Put(key(i))
	}
	s1, _ := db.NewSnapshot()
	stale := w1.GetNode(key(3)) // w1 looked the node up ...
	w2.Delete(key(3))           // ... w2 wins the delete and appends more
	w2.Delete(key(4))
	w2.Delete(key(5))
	if w1.DeleteNode(stale) { // w1 loses
		t.Fatal("loser reported success")
	}
	s2, _ := db.NewSnapshot()
	s1.Close()
	s2.Close()
	s3, _ := db.NewSnapshot()
	s3.Close()
	db.GC()
	time.Sleep(200 * time.Millisecond)
	sts := db.aggrStoreStats()
	if sts.NodeCount != int(db.ItemsCount()) {
		t.Errorf("node_count=%d items=%d: garbage stranded", sts.NodeCount, db.ItemsCount())
	}
}

// ---------------------------------------------------------------- F5 (C04/C07)
func TestProbeF5LoserFlushDoubleFree(t *testing.T) {
	a := newProbeAlloc()
	db := NewWithConfig(probeCfg(a))
	w1 := db.NewWriter()
	w2 := db.NewWriter()
	w1.Put(key(1))
	n := w1.GetNode(key(1))
	barrier := db.store.GetAccesBarrier()
	tok := barrier.Acquire() // keeps the node alive for the losing call below
	if !w2.DeleteNode(n) {
		t.Fatal("first delete failed")
	}
	if w1.DeleteNode(n) {
		t.Fatal("second delete succeeded")
	}
	barrier.Release(tok)
	s, _ := db.NewSnapshot()
	s.Close()
	time.Sleep(200 * time.Millisecond)
	db.Close()
	if a.double != 0 {
		t.Errorf("%d blocks freed twice", a.double)
	}
	if len(a.live) != 0 {
		t.Errorf("%d blocks leaked", len(a.live))
	}
}

// ---------------------------------------------------------------- F7 (C07)
func storeSome(t *testing.T, dir string, cfg Config, n int) {
	db := NewWithConfig(cfg)
	w := db.NewWriter()
	for i := 0; i < n; i++ {
		w.Put(key(i))
	}
	s, _ := db.NewSnapshot()
	if err := db.StoreToDisk(dir, s, 2, nil); err != nil {
		t.Fatal(err)
	}
	s.Close()
	db.Close()
}

func TestProbeF7RestoreLeaksOldSentinels(t *testing.T) {
	dir, _ := ioutil.TempDir("", "probe")
	defer os.RemoveAll(dir)
	storeSome(t, dir, probeCfg(nil), 100)
	a := newProbeAlloc()
	db := NewWithConfig(probeCfg(a))
	s, err := db.LoadFromDisk(dir, 2, nil)
	if err != nil {
		t.Fatal(err)
	}
	s.Close()
	time.Sleep(100 * time.Millisecond)
	db.Close()
	if len(a.live) != 0 || a.double != 0 {
		t.Errorf("leaked=%d double=%d", len(a.live), a.double)
	}
}

// ---------------------------------------------------------------- F8 (C07) known finding
func TestProbeF8FailedRestoreLeaks(t *testing.T) {
	dir, _ := ioutil.TempDir("", "probe")
	defer os.RemoveAll(dir)
	storeSome(t, dir, probeCfg(nil), 1000)
	// damage one shard that has content
	files, _ := filepath.Glob(filepath.Join(dir, "data", "shard-*"))
	for _, f := range files {
		if st, _ := os.Stat(f); st.Size() > 100 {
			os.Truncate(f, st.Size()-7)
			break
		}
	}
	a := newProbeAlloc()
	db := NewWithConfig(probeCfg(a))
	done := make(chan error, 1)
	go func() { _, err := db.LoadFromDisk(dir, 4, nil); done <- err }()
	select {
	case err := <-done:
		if err == nil {
			t.Fatal("damaged backup restored without error")
		}
	case <-time.After(10 * time.Second):
		t.Fatal("LoadFromDisk hangs")
	}
	db.Close()
	if len(a.live) != 0 {
		t.Errorf("failed restore leaked %d blocks", len(a.live))
	}
}

// ---------------------------------------------------------------- F9 (C11)
func TestProbeF9LoaderWedge(t *testing.T) {
	dir, _ := ioutil.TempDir("", "probe")
	defer os.RemoveAll(dir)
	storeSome(t, dir, probeCfg(nil), 1000)
	os.Truncate(filepath.Join(dir, "data", "shard-0"), 3)
	db := NewWithConfig(probeCfg(nil))
	done := make(chan error, 1)
	go func() { _, err := db.LoadFromDisk(dir, 1, nil); done <- err }()
	select {
	case err := <-done:
		if err == nil {
			t.Error("damaged backup restored without error")
		}
	case <-time.After(5 * time.Second):
		t.Error("LoadFromDisk hangs on a truncated shard with concurrency 1")
	}
}

// ---------------------------------------------------------------- F10 (C11)
func TestProbeF10ManifestDamage(t *testing.T) {
	dir, _ := ioutil.TempDir("", "probe")
	defer os.RemoveAll(dir)
	storeSome(t, dir, probeCfg(nil), 1000)
	fj := filepath.Join(dir, "data", "files.json")
	orig, _ := ioutil.ReadFile(fj)
	ioutil.WriteFile(fj, orig[:10], 0660)
	db := NewWithConfig(probeCfg(nil))
	s, err := db.LoadFromDisk(dir, 2, nil)
	if err == nil {
		t.Errorf("truncated files.json: success with %d items", s.Count())
	}
	ioutil.WriteFile(fj, orig, 0660)
	cj := filepath.Join(dir, "data", "checksums.json")
	ioutil.WriteFile(cj, []byte("[1,2"), 0660)
	func() {
		defer func() {
			if r := recover(); r != nil {
				t.Errorf("truncated checksums.json: panic %v", r)
			}
		}()
		db2 := NewWithConfig(probeCfg(nil))
		if _, err := db2.LoadFromDisk(dir, 2, nil); err == nil {
			t.Errorf("truncated checksums.json: success")
		}
	}()
}

// ---------------------------------------------------------------- F11 (C11/C12)
func TestProbeF11MissingDeltaManifest(t *testing.T) {
	dir, _ := ioutil.TempDir("", "probe")
	defer os.RemoveAll(dir)
	cfg := probeCfg(nil)
	cfg.UseDeltaInterleaving()
	db := NewWithConfig(cfg)
	w := db.NewWriter()
	n := 20000
	for i := 0; i < n; i++ {
		w.Put(key(i))
	}
	s, _ := db.NewSnapshot()
	// mutate concurrently with the backup so that delta files get content
	var wg sync.WaitGroup
	wg.Add(1)
	stop := make(chan struct{})
	go func() {
		defer wg.Done()
		for i := 0; ; i++ {
			select {
			case <-stop:
				return
			default:
			}
			w.Delete(key(i % n))
			if i%100 == 0 {
				sn, _ := db.NewSnapshot()
				sn.Close()
			}
		}
	}()
	err := db.StoreToDisk(dir, s, 2, nil)
	close(stop)
	wg.Wait()
	if err != nil {
		t.Fatal(err)
	}
	db.Close()

	load := func() (int64, error) {
		d := NewWithConfig(cfg)
		sn, err := d.LoadFromDisk(dir, 2, nil)
		if err != nil {
			return 0, err
		}
		return sn.Count(), nil
	}
	c0, err := load()
	if err != nil || c0 != int64(n) {
		t.Fatalf("intact backup: count=%d err=%v", c0, err)
	}
	// What a process death between writing the data manifests and the
	// deferred delta manifests leaves behind: delta shards, no delta manifest.
	os.Remove(filepath.Join(dir, "delta", "files.json"))
	os.Remove(filepath.Join(dir, "delta", "checksums.json"))
	c1, err := load()
	if err == nil && c1 != int64(n) {
		t.Errorf("delta manifests missing: silent success with %d of %d items", c1, n)
	}
}

// ---------------------------------------------------------------- F12/F13 (C12)
func fullDisk(t *testing.T, dir string) {
	os.MkdirAll(filepath.Join(dir, "data"), 0755)
	for i := 0; i < 256; i++ {
		os.Symlink("/dev/full", filepath.Join(dir, "data", fmt.Sprintf("shard-%d", i)))
	}
}

func TestProbeF12DeltaHandshakeErasesError(t *testing.T) {
	dir, _ := ioutil.TempDir("", "probe")
	defer os.RemoveAll(dir)
	fullDisk(t, dir)
	old := DiskBlockSize
	DiskBlockSize = 64
	defer func() { DiskBlockSize = old }()
	cfg := probeCfg(nil)
	cfg.UseDeltaInterleaving()
	db := NewWithConfig(cfg)
	defer db.Close()
	w := db.NewWriter()
	for i := 0; i < 5000; i++ {
		w.Put(key(i))
	}
	s, _ := db.NewSnapshot()
	if err := db.StoreToDisk(dir, s, 2, nil); err == nil {
		t.Error("delta mode: disk full during scan reported as success")
	}
}

func TestProbeF13CloseErrorsDropped(t *testing.T) {
	dir, _ := ioutil.TempDir("", "probe")
	defer os.RemoveAll(dir)
	fullDisk(t, dir)
	db := NewWithConfig(probeCfg(nil))
	defer db.Close()
	w := db.NewWriter()
	for i := 0; i < 5000; i++ {
		w.Put(key(i))
	}
	s, _ := db.NewSnapshot()
	if err := db.StoreToDisk(dir, s, 2, nil); err == nil {
		t.Error("disk full during final flush reported as success")
	}
}

// ---------------------------------------------------------------- F1 (C08)
// Unsteered stress: Open racing with the final Close. When Open's check and
// increment straddle the Close, the snapshot is retired twice and the second
// retirement leaves a stale entry at the front of the retired set, which
// blocks the in-order collector for good.
func TestProbeF1OpenRacesFinalClose(t *testing.T) {
	db := NewWithConfig(probeCfg(nil))
	w := db.NewWriter()
	for i := 0; i < 300000; i++ {
		if i%1000 == 0 {
			w.Put(key(i))
		}
		s, _ := db.NewSnapshot()
		var wg sync.WaitGroup
		wg.Add(2)
		go func() { defer wg.Done(); s.Close() }()
		go func() {
			defer wg.Done()
			if s.Open() {
				s.Close()
			}
		}()
		wg.Wait()
		if i%1000 == 0 {
			db.GC()
			if n := db.gcsnapshots.GetStats().NodeCount; n != 0 {
				time.Sleep(50 * time.Millisecond)
				db.GC()
				if n = db.gcsnapshots.GetStats().NodeCount; n != 0 {
					t.Fatalf("iteration %d: collector stuck, %d retired snapshots can never be collected (lastGCSn=%d)", i, n, db.GetLastGCSn())
				}
			}
		}
	}
}
